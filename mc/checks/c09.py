"""
C09 - adding or appending a file never disturbs files already stored.

BFS over container histories on real host files through VirtualFile: add(file), save+re-open (what
--append does). Reference model = a Python list. After every save the host file is re-opened with
VirtualFile (kind sniffed) and parsed by the independent reader; both must list exactly the model list.
Big-cassette histories drive the image past (and exactly onto) the size of a disk image.
"""
import itertools
import os
import shutil
import tempfile
import zlib

from .. import common
from .. import containers as C
from ..ref import dskfs, tape
from . import c07

PROP = "C09"
CHUNK = 4

ALPHA = [
    c07.fspec("ML", 1, "A"), c07.fspec("ML", 4599, "TRAIL", pat="00"), c07.fspec("ML", 2294, "EXACT", pat="ff"),
    c07.fspec("ML", 0, "EMPTYML"), c07.fspec("BAS", 300, "BASIC", "BAS", pat="m00.p0"), c07.fspec("ASC", 2304, "ASCII", "TXT", pat="55"),
    c07.fspec("ML", 65535, "HUGE", pat="dir"), c07.fspec("ML", 700, "lower", "bin", pat="tape"),
    c07.fspec("MLA", 14, "MLASCII", pat="ramp7", load=0xFFF2, exec_=0xFFFE), c07.fspec("DATB", 700, "DATABIN", "DAT", pat="ramp"),
]
SAVE = "save"


def histories(depth):
    syms = list(range(len(ALPHA))) + [SAVE]
    for n in range(1, depth + 1):
        for tup in itertools.product(syms, repeat=n):
            if tup[0] == SAVE:
                continue            # saving an untouched new container: covered by the leading-save-free histories
            if any(a == SAVE and b == SAVE for a, b in zip(tup, tup[1:])):
                continue
            yield list(tup)


def cas_overhead(n):
    return 128 + 128 + 21 + 128 + 128 + 6 + (0 if n == 0 else n + 6 * ((n + 254) // 255))


def exact_size_lengths(a=65535):
    """three file lengths (the first one given) whose cassette image is exactly 161,280 bytes"""
    target = dskfs.IMAGE_SIZE
    for b in range(65535, 20000, -1):
        rest = target - cas_overhead(a) - cas_overhead(b)
        # solve cas_overhead(c) == rest
        for c in range(max(0, rest - 1400), rest):
            if cas_overhead(c) == rest:
                return [a, b, c]
    return None


def cases(tier, seed):
    depth = 4 if tier == "thorough" else 3
    for kind in ("cas", "dsk"):
        for h in histories(depth):
            if kind == "dsk" and h.count(6) > 2 and tier != "thorough":
                continue
            yield {"kind": kind, "hist": h}
    # big cassettes: every pattern, crossing and landing exactly on the disk image size
    for pat in ("00", "ff", "ramp", "dir", "55"):
        big = c07.fspec("ML", 65535, "BIG", pat=pat)
        yield {"kind": "cas", "hist": ["big", SAVE, "big", SAVE, "big", SAVE, 0, SAVE], "big": big}
        yield {"kind": "cas", "hist": ["big", "big", "big", SAVE, 1, SAVE], "big": big}
    # fill-to-capacity: k-granule files added one per save/re-open until the disk refuses (the last files land in granules 60-67)
    for k in (2, 3, 5, 9):
        yield {"kind": "dsk", "hist": [x for i in range(68 // k + 1) for x in ("g{}".format(k), SAVE)], "fill": k}
    # 68 one-granule files (more than the first eight directory sectors hold): eight at a time, then one by one until the disk refuses
    yield {"kind": "dsk", "hist": (["g1"] * 8 + [SAVE]) * 8 + ["g1", SAVE] * 5, "fill": 1}
    yield {"kind": "dsk", "hist": [x for i in range(30) for x in ("g2", SAVE)] + ["g3", SAVE, "g3", SAVE, "g1", SAVE, "g1", SAVE, "g1", SAVE], "fill": "mix"}
    # every file kind at the lengths where its stored stream (header + data + trailer) meets a granule boundary
    for kindname in ("BAS", "DATB", "ML", "ASC", "DAT"):
        h = c07.HDR[kindname]
        for n in (2304 - h - 1, 2304 - h, 2304 - h + 1, 4608 - h - 1, 4608 - h, 4608 - h + 1):
            for kind in ("dsk", "cas"):
                yield {"kind": kind, "hist": [0, SAVE, "kb:{}:{}".format(kindname, n), SAVE, 1, SAVE]}
    # ... and where its trailer (or its data) crosses a SECTOR boundary inside the last granule (the allocation table counts those sectors)
    for kindname in ("ML", "BAS", "DATB", "ASC"):
        for n in (245, 246, 247, 248, 250, 251, 253, 256, 503, 2552, 2553):
            for kind in ("dsk", "cas"):
                yield {"kind": kind, "hist": [0, SAVE, "kb:{}:{}".format(kindname, n), SAVE, 1, SAVE]}
    # names with punctuation in them (a stored name must not change when more files are appended)
    for nm in ("V.1.2", "A.B", "END.", "A-B", "X,Y", "#1", "0A0"):
        for kind in ("dsk", "cas"):
            yield {"kind": kind, "hist": ["nm:" + nm, SAVE, 0, SAVE, 1, SAVE, 4, SAVE]}
    # files whose ASCII flag byte is neither $00 nor $FF (a tape may carry any byte there; outside what C06/C07 quantify over, so the
    # container may refuse them - but whatever it does, the files stored before must stay listed, and an accepted file must read back)
    for flag in (0x01, 0x10, 0x80, 0xFE):
        for ft in (0, 1, 3):
            for kind in ("dsk", "cas"):
                yield {"kind": kind, "hist": [0, SAVE, "fl:{}:{:02X}".format(ft, flag), SAVE, 1, SAVE]}
    # ASCII files have no 16-bit length field on a disk: they may be larger than 65,535 bytes, up to the whole disk
    for kind in ("dsk", "cas"):
        for h in ([0, SAVE, "asc70000", SAVE, 1, SAVE], ["asc65536", SAVE, 0, SAVE], ["asc65535", SAVE, 0, SAVE], ["asc156671", SAVE, SAVE],
                  ["asc156671", SAVE, 0, SAVE], ["asc156672", SAVE], [0, "asc100000", SAVE, "asc50000", SAVE, 1, SAVE]):
            yield {"kind": kind, "hist": h}
    # the container OBJECT itself (no host file): add, list, re-open from its bytes; additions that do not fit are refused and
    # must leave everything stored so far in place - on the same object and after re-opening
    osyms = [0, 4, 5, "big30", "big40", "R"]
    for n in (2, 3, 4):
        for tup in itertools.product(osyms, repeat=n):
            if tup[0] == "R" or sum(1 for t in tup if isinstance(t, str) and t.startswith("big")) < 2 and n == 4:
                continue
            yield {"kind": "dsk", "obj": list(tup)}
    for tup in itertools.product([0, 4, 1, "R"], repeat=3):
        if tup[0] != "R":
            yield {"kind": "cas", "obj": list(tup)}
    # the same for other first lengths: where the tape's block framing falls relative to the offsets a disk reader looks at differs
    for a in (65500, 65300, 64000):
        ex2 = exact_size_lengths(a)
        if ex2:
            for pat in ("55", "dos"):
                yield {"kind": "cas", "hist": ["x0", "x1", "x2", SAVE, 0, SAVE], "exact": ex2, "pat": pat}
    ex = exact_size_lengths()
    if ex:
        # (what lies where a disk image has its directory decides what a disk reader makes of it: zeroes, $FF, plausible entries, text)
        for pat in ("00", "ff", "dir"):
            yield {"kind": "cas", "hist": ["x0", "x1", "x2", SAVE, 0, SAVE], "exact": ex, "pat": pat}


def file_of(case, sym):
    if sym == "big":
        return case["big"]
    if isinstance(sym, str) and sym.startswith("g"):
        k = int(sym[1:])
        return c07.fspec("ML", k * 2304 - 10 - 100, "G{}".format(k), pat="ramp7")
    if isinstance(sym, str) and sym.startswith("nm:"):
        return c07.fspec("ML", 300, sym[3:], "BIN", pat="ramp7")
    if isinstance(sym, str) and sym.startswith("fl:"):
        _, ft, flag = sym.split(":")
        return C.spec("ODD" + flag, "DAT", int(ft), int(flag, 16), 0, 0, 300, "ramp7")
    if isinstance(sym, str) and sym.startswith("kb:"):
        _, kindname, n = sym.split(":")
        return c07.fspec(kindname, int(n), "KB" + n, "DAT", pat="ramp7")
    if isinstance(sym, str) and sym.startswith("asc"):
        n = int(sym[3:])
        return c07.fspec("ASC", n, "T{}".format(n % 100000), "TXT", pat="ramp7")
    if isinstance(sym, str) and sym.startswith("x"):
        i = int(sym[1:])
        return c07.fspec("ML", case["exact"][i], "X{}".format(i), pat=case["pat"])
    return ALPHA[sym]


def cell_of(case):
    if "obj" in case:
        return "{}|obj|{}".format(case["kind"], ">".join(str(t) if isinstance(t, str) else ALPHA[t]["name"] for t in case["obj"]))
    if "fill" in case:
        return "{}|fill-to-capacity.{}".format(case["kind"], case["fill"])

    def t(sym):
        if sym == SAVE:
            return "S"
        if isinstance(sym, str):
            return sym
        return ALPHA[sym]["name"]
    return "{}|{}".format(case["kind"], ">".join(t(s) for s in case["hist"]))


def check_case(case):
    from cocoasm.virtualfiles.virtual_file import VirtualFile, VirtualFileType
    from cocoasm.virtualfiles.source_file import SourceFile, SourceFileType
    kind = case["kind"]
    vtype = VirtualFileType.CASSETTE if kind == "cas" else VirtualFileType.DISK
    cell = cell_of(case)
    res = {"nontrivial": True, "outcome": "ok"}
    viol = []

    def bad(symptom, expected, observed):
        viol.append({"component": "history", "cell": cell, "symptom": symptom, "expected": str(expected)[:160], "observed": str(observed)[:160],
                     "input": case})

    if "obj" in case:
        return check_obj(case, cell, res, viol, bad)
    td = common.mkdtemp(prefix="c09_")
    path = os.path.join(td, "img." + kind)
    saved = []        # model: files in the image on the host
    pending = []
    steps = 0
    try:
        def open_vf():
            vf = VirtualFile(SourceFile(path, file_type=SourceFileType.BINARY), vtype)
            vf.open_virtual_file()
            return vf
        vf = open_vf()
        hist = list(case["hist"])
        if hist[-1] != SAVE:
            hist.append(SAVE)
        for sym in hist:
            steps += 1
            if sym != SAVE:
                f = file_of(case, sym)
                vf.add_coco_file(C.to_coco(f))
                pending.append(f)
                continue
            before = open(path, "rb").read() if os.path.exists(path) else None
            model = saved + pending
            gran = sum((f["n"] + c07.HDR[c07.kind_of(f)]) // 2304 + 1 for f in model)
            fits = kind == "cas" or (gran <= 68 and len(model) <= 72)
            try:
                vf.save_virtual_file(append_mode=True)
                err = None
            except Exception as e:
                err = e
            after = open(path, "rb").read() if os.path.exists(path) else None
            if err is not None:
                if fits:
                    t, w = common._raiser(err)
                    bad("save raised {}@{}".format(t, w), "image with {} files".format(len(model)), repr(err))
                elif after != before:
                    bad("host file changed by a failed save", "byte-identical", "changed")
                break
            if not fits:
                bad("files that do not fit were saved", "error", "{} granules needed".format(gran))
                break
            saved, pending = model, []
            # independent reader
            try:
                if kind == "cas":
                    ref = [{"name": f["name"].decode("latin1"), "ext": "", "type": f["type"], "dtype": f["dtype"], "load": f["a1"], "exec": f["a2"],
                            "data": f["data"]} for f in tape.parse(after)]
                else:
                    probs = dskfs.fsck(after)
                    if probs:
                        bad("fsck: " + probs[0][0], "consistent image", probs[0][1])
                    ref = dskfs.read_files(after)
                d = _compare(saved, ref, kind)
                if d:
                    bad("independent reader: " + d[0], d[1], d[2])
            except (tape.TapeError, dskfs.FsError) as e:
                bad("independent reader cannot parse the saved image", "well-formed image", str(e))
            # the tool's own re-open (what --append and file_util do), kind sniffed
            try:
                with common.watchdog(120):
                    sn = VirtualFile(SourceFile(path, file_type=SourceFileType.BINARY))
                    sn.open_virtual_file()
                want_kind = VirtualFileType.CASSETTE if kind == "cas" else VirtualFileType.DISK
                if sn.virtual_file_type != want_kind:
                    bad("re-opened image recognised as another kind", want_kind.name, sn.virtual_file_type.name if sn.virtual_file_type else None)
                else:
                    d = _compare(saved, [C.listed_to_dict(f) for f in sn.list_files()], kind)
                    if d:
                        bad("re-opened listing: " + d[0], d[1], d[2])
            except Exception as e:
                t, w = common._raiser(e)
                bad("re-open raised {}@{}".format(t, w), "listing", repr(e)[:100])
            if viol:
                break
            try:
                vf = open_vf()
            except Exception as e:
                t, w = common._raiser(e)
                bad("re-open for append raised {}@{}".format(t, w), "opened", repr(e)[:100])
                break
    finally:
        shutil.rmtree(td, ignore_errors=True)
    res["transitions"] = steps
    res["state"] = "{}:{}".format(kind, ",".join(C.brief(f) for f in saved))
    if viol:
        res["viol"] = viol[:2]
        res["outcome"] = "violation"
    if zlib.crc32(cell.encode()) % 211 == 0:
        res["sample"] = {"history": cell, "files_saved": len(saved)}
    return res


def check_obj(case, cell, res, viol, bad):
    from cocoasm.virtualfiles.cassette import CassetteFile
    from cocoasm.virtualfiles.disk import DiskFile
    kind = case["kind"]
    cls = DiskFile if kind == "dsk" else CassetteFile
    obj = cls()
    model = []
    steps = 0
    for sym in case["obj"]:
        steps += 1
        if sym == "R":                      # re-open from the object's own bytes
            try:
                obj = cls(buffer=list(bytes(obj.get_buffer())))
            except Exception as e:
                t, w = common._raiser(e)
                bad("re-open from bytes raised {}@{}".format(t, w), "container", repr(e)[:100])
                break
        else:
            f = c07.fspec("ASC", int(sym[3:]) * 2304 - 5, sym.upper(), "TXT", pat="ramp7") if isinstance(sym, str) else ALPHA[sym]
            gran = sum((x["n"] + c07.HDR[c07.kind_of(x)]) // 2304 + 1 for x in model + [f])
            fits = kind == "cas" or gran <= 68
            try:
                obj.add_file(C.to_coco(f))
                if not fits:
                    bad("a file that does not fit was accepted", "refused", "{} granules needed".format(gran))
                    break
                model.append(f)
            except Exception as e:
                if fits:
                    t, w = common._raiser(e)
                    bad("add raised {}@{}".format(t, w), "stored", repr(e)[:100])
                    break
        try:
            d = _compare(model, [C.listed_to_dict(x) for x in obj.list_files()], kind)
            if d:
                bad("after {} on one object: {}".format("a refused add" if sym != "R" and (not model or model[-1] is not f) else "re-open" if sym == "R" else "an add", d[0]), d[1], d[2])
                break
        except Exception as e:
            t, w = common._raiser(e)
            bad("listing raised {}@{} after {}".format(t, w, "a refused add" if sym != "R" and (not model or model[-1] is not f) else "re-open" if sym == "R" else "an add"), "listing", repr(e)[:100])
            break
    res["transitions"] = steps
    res["state"] = "{}:obj:{}".format(kind, ",".join(C.brief(f) for f in model))
    if viol:
        res["viol"] = viol[:2]
        res["outcome"] = "violation"
    return res


def _compare(model, listed, kind):
    # an empty cassette file is a recorded finding of C06: the comparison here is on the same terms (reported, not hidden)
    for i, s in enumerate(model):
        if i >= len(listed):
            why = "listing has fewer files"
            if kind == "cas" and any(x["n"] == 0 for x in model[:i + 1]):
                why += " (stops at a file with no data)"
            return why, len(model), len(listed)
        d = C.compare_listed(s, listed[i], kind, check_addr=(kind == "cas" or s["type"] == 2))
        if d:
            return "file {} differs: {}".format("new" if i >= len(model) - 1 else "old", d[0]), "{}: {}".format(C.brief(s), d[1]), str(d[2])[:60]
    if len(listed) > len(model):
        return "listing has extra files", len(model), len(listed)
    return None


def describe(tier):
    return {
        "alphabet": "operations add(f) for f in {} and save+re-open, on cassette and disk host files; every kind appended at the lengths where data or trailer cross a sector boundary inside the last granule (245..256, 503, 2552, 2553); files whose names hold punctuation (V.1.2, A.B, END., X,Y ...) followed by three appends; every file kind at the 6 lengths around its first two granule boundaries between two other files; histories of 2-4 steps on the container object itself "
                    "(add small / BASIC / ASCII / 30- and 40-granule files, re-open from bytes; additions that do not fit must be refused and leave the rest in place); ASCII files of 65535, 65536, 70000, 100000 bytes and of "
                    "exactly / one more than the whole disk (156671 / 156672 bytes) in 7 histories per medium; big-cassette histories with 65535-byte "
                    "files of 5 content patterns (incl. planted directory entries) crossing 161,280 bytes, and three files whose cassette image is "
                    "exactly 161,280 bytes; fill-to-capacity histories (1-, 2-, 3-, 5-, 9-granule files and a mixture, one save/re-open per file, until the disk "
                    "refuses)".format([C.brief(f) for f in ALPHA]),
        "bound": "all operation sequences of length <= {} (no leading or doubled save)".format(4 if tier == "thorough" else 3),
        "oracle": "after every save: the host file, parsed by the independent reader and re-opened by VirtualFile with the kind sniffed, lists "
                  "exactly the model list in order with identical fields; the kind recognised is the kind written; a save that cannot fit raises and "
                  "leaves the host file byte-identical",
        "rule": "state = (kind, model list after the history); non-trivial = every history",
        "assumptions": ["images are not compared byte for byte (no canonical layout is promised)"],
    }
