"""
C03 - branch and PC-relative displacements reach exactly the referenced target.

Distance sweeps (exactly sized RMB filler) for every branch mnemonic and indexed-capable mnemonic, and
BFS-style enumeration of 2 (quick) / 3 (thorough) mutually dependent label,PCR statements with every
filler length around the 8/16-bit boundary. Oracle: decode the statement at its listed address; the
decoded target must equal symbol-table(label)+k; out-of-range short branches must be rejected.
"""
import itertools
import zlib

from .. import common
from ..ref import m6809 as R
from . import c01

PROP = "C03"
CHUNK = 200

SHORT = sorted(m for m in R.MNEM if "REL8" in R.MNEM[m])
LONG = sorted(m for m in R.MNEM if "REL16" in R.MNEM[m])
IDXM = sorted(m for m in R.MNEM if "IDX" in R.MNEM[m])
REP_IDX = ["LEAX", "LDA", "LDX", "LDY", "STA", "STY", "NEG", "JMP", "JSR", "CMPS", "LEAS"]
BAND8 = [0, 1, 2, 3] + list(range(118, 134))
BAND16 = list(range(32755, 32776))


# one statement per size-computation path of the assembler (text, bytes it emits): what may lie between a PC-relative operand and its label
UNITS = {
    "idx5": (" LDA 5,X", 2), "idx0": (" LDA ,X", 2), "idxinc": (" LDD ,X++", 2), "idxacc": (" LDA B,U", 2), "idx8n": (" STA -100,U", 3),
    "idx16n": (" LDA -1000,X", 4), "ind16": (" LDA [1000,X]", 4), "ind8": (" LDA [100,X]", 3), "ind0": (" LDA [,Y]", 2), "extind": (" JMP [$1234]", 4),
    "inh": (" NOP", 1), "inh2": (" SWI2", 2), "imm8": (" LDA #1", 2), "imm16": (" LDX #1", 3), "imm16p": (" LDY #1", 4), "dir": (" LDA $12", 2),
    "ext": (" LDA $1234", 3), "extp": (" LDY $1234", 4), "dirp": (" STY $12", 3), "ext16": (" LDY $12", 4), "pcr8n": (" LDA 10,PCR", 3), "pcr16n": (" LDA 1000,PCR", 4),
    "psh": (" PSHS A,B", 2), "tfr": (" TFR X,Y", 2), "fcb1": (" FCB 1", 1), "fcb5": (" FCB 1,2,3,4,5", 5), "fdb1": (" FDB $1234", 2),
    "fdb3": (" FDB 1,2,3", 6), "fdb9": (" FDB 1,2,3,4,5,6,7,8,9", 18), "fcc": (' FCC "HELLO"', 5), "rmb7": (" RMB 7", 7), "lbra": (" LBRA FAR", 3),
    "lbne": (" LBNE FAR", 4), "setdp": (" SETDP 0", 0),
}


def filler_lines(n, filler):
    """exactly n bytes of filler: RMB, or constant-offset indexed instructions (whose size estimate differs from RMB's) padded with RMB"""
    if not n:
        return []
    if filler == "rmb":
        return [" RMB {}".format(n)]
    unit, text = {"idx8": (3, " LDA 100,X"), "idx16": (4, " LDD 1000,Y"), "idx8n": (3, " STA -100,U"), "ext": (3, " LDA $1234")}[filler]
    k = n // unit
    out = [text] * k
    if n - k * unit:
        out.append(" RMB {}".format(n - k * unit))
    return out


def prog_ref(mnem, kind, direction, n, k=0, org=None, indirect=False, filler="rmb"):
    """one referencing statement and its target, n filler bytes between them"""
    tgt = "T1" if k == 0 else ("T1+{}".format(k) if k > 0 else "T1-{}".format(-k))
    if kind == "pcr":
        op = "{},PCR".format(tgt)
        if indirect:
            op = "[" + op + "]"
    else:
        op = tgt
    lines = []
    if org is not None:
        lines.append(" ORG {}".format(org))
    if direction == "fwd":
        lines += ["S1 {} {}".format(mnem, op)] + filler_lines(n, filler) + ["T1 NOP"]
    elif direction == "bwd":
        lines += ["T1 NOP"] + filler_lines(n, filler) + ["S1 {} {}".format(mnem, op)]
    else:
        lines += ["T1 {} {}".format(mnem, op)]
    return lines


def cases(tier, seed):
    thorough = tier == "thorough"
    # (a) branches
    for mnem in SHORT + LONG:
        full = thorough or mnem in ("BRA", "BNE", "BSR", "LBRA", "LBNE", "LBSR")
        ns = range(0, 141) if full else BAND8
        for direction in ("fwd", "bwd"):
            for n in ns:
                yield {"shape": "ref", "mnem": mnem, "kind": "rel", "dir": direction, "n": n, "k": 0, "org": None, "ind": False}
        yield {"shape": "ref", "mnem": mnem, "kind": "rel", "dir": "self", "n": 0, "k": 0, "org": None, "ind": False}
        if mnem in LONG and (thorough or mnem in ("LBRA", "LBNE")):
            for direction in ("fwd", "bwd"):
                for n in BAND16:
                    yield {"shape": "ref", "mnem": mnem, "kind": "rel", "dir": direction, "n": n, "k": 0, "org": None, "ind": False}
    for mnem in ("BRA", "LBRA", "LBNE"):
        for k in (1, -1, 2):
            for direction in ("fwd", "bwd", "self"):
                for n in (0, 5, 125, 126, 127, 128):
                    yield {"shape": "ref", "mnem": mnem, "kind": "rel", "dir": direction, "n": n, "k": k, "org": None, "ind": False}
    for org in (0x10, 0xF0, 0xFE, 0x100, 0x0E00, 0xFF00):
        for mnem in ("BRA", "LBRA"):
            for direction in ("fwd", "bwd"):
                for n in (0, 10, 20, 126, 127):
                    yield {"shape": "ref", "mnem": mnem, "kind": "rel", "dir": direction, "n": n, "k": 0, "org": org, "ind": False}
    # (b) label,PCR
    for mnem in IDXM:
        full = thorough or mnem in ("LEAX", "LDY")
        ns = range(0, 141) if full else BAND8
        for ind in (False, True):
            for direction in ("fwd", "bwd"):
                for n in ns:
                    yield {"shape": "ref", "mnem": mnem, "kind": "pcr", "dir": direction, "n": n, "k": 0, "org": None, "ind": ind}
            yield {"shape": "ref", "mnem": mnem, "kind": "pcr", "dir": "self", "n": 0, "k": 0, "org": None, "ind": ind}
    for mnem in (REP_IDX if thorough else ["LEAX", "LDY"]):
        for direction in ("fwd", "bwd"):
            for n in BAND16:
                yield {"shape": "ref", "mnem": mnem, "kind": "pcr", "dir": direction, "n": n, "k": 0, "org": None, "ind": False}
    for mnem in ("LEAX", "LDY", "LDX"):
        for k in (1, -1, 3):
            for direction in ("fwd", "bwd", "self"):
                for n in (0, 5, 122, 123, 124, 125, 126, 127, 128, 129):
                    yield {"shape": "ref", "mnem": mnem, "kind": "pcr", "dir": direction, "n": n, "k": k, "org": None, "ind": False}
        for org in (0x10, 0xF0, 0xFE, 0x100, 0x0E00, 0xFF00):
            for direction in ("fwd", "bwd"):
                for n in (0, 10, 20, 123, 124, 125, 126, 127, 128):
                    yield {"shape": "ref", "mnem": mnem, "kind": "pcr", "dir": direction, "n": n, "k": 0, "org": org, "ind": False}
    # (b2) the same distances made of instructions instead of RMB (statements whose own size has a minimum and a maximum)
    for mnem in ("LEAX", "LDY", "BRA", "LBRA"):
        kind = "rel" if mnem in ("BRA", "LBRA") else "pcr"
        for filler in ("idx8", "idx16", "idx8n", "ext"):
            for direction in ("fwd", "bwd"):
                for n in (range(100, 141) if mnem != "LBRA" else (126, 127, 128, 129)):
                    for ind in ((False, True) if mnem == "LEAX" else (False,)):
                        yield {"shape": "ref", "mnem": mnem, "kind": kind, "dir": direction, "n": n, "k": 0, "org": None, "ind": ind, "filler": filler}
    # (b3) spans that mix exactly-sized filler, constant-offset indexed statements and OTHER not-yet-sized PCR statements
    for direction in ("fwd", "bwd"):
        for k1, unit in itertools.product(range(0, 5), ("idx16", "idx8")):
            for k2, far in itertools.product(range(0, 4), (True, False)):
                if k1 == 0 and k2 == 0:
                    continue
                for g in (range(84, 131) if thorough else range(92, 128, 1)):
                    yield {"shape": "mixed", "dir": direction, "k1": k1, "unit": unit, "k2": k2, "far": far, "g": g}
    # (b3k) ... and with a constant on the label (label+n / label-n widens the distance estimates asymmetrically)
    for direction in ("fwd", "bwd"):
        for k in (4, 8, 16, -4, -8):
            for k2, far in ((2, True), (3, True), (4, True), (3, False)):
                for g in range(96, 132):
                    yield {"shape": "mixed", "dir": direction, "k1": 0, "unit": "idx8", "k2": k2, "far": far, "g": g, "k": k}
    # (b4) the same with one or three statements of EVERY size-computation path in the span, the RMB filler centred on the 8/16-bit limit
    for direction in ("fwd", "bwd"):
        for unit, (text, usz) in UNITS.items():
            for k1 in (1, 3):
                for k2, far in ((0, False), (1, True), (1, False), (2, True), (3, True), (3, False)):
                    base = k1 * usz + 3 * k2
                    for g in range(max(0, 118 - base), max(0, 131 - base) + 1):
                        yield {"shape": "mixed", "dir": direction, "k1": k1, "unit": unit, "k2": k2, "far": far, "g": g}
    # (b5) the referencing statement is directly followed by an ORG (the end of a code block): the displacement is still measured
    #      from the end of the statement itself
    for mnem, kind in (("LEAX", "pcr"), ("LDY", "pcr"), ("JMP", "pcr"), ("BRA", "rel"), ("LBNE", "rel"), ("BSR", "rel")):
        for direction in ("bwd", "self"):
            for n in ((0,) if direction == "self" else (0, 5, 100, 120, 121, 122, 123, 124, 125, 126, 127, 128, 200)):
                for org in (None, 0x1000):
                    for ind in ((False, True) if mnem in ("LEAX", "JMP") else (False,)):
                        if kind == "rel" and mnem != "LBNE" and n > 120:
                            continue
                        yield {"shape": "ref", "mnem": mnem, "kind": kind, "dir": direction, "n": n, "k": 0, "org": org, "ind": ind, "org_after": True}
    # (b7) a PCR operand that names the label of its OWN line, with a constant around the 8/16-bit limit (the distance is then made
    #      of the statement itself and the constant only)
    for mnem in ("LEAX", "LDY", "LDA", "CMPU", "LDX", "JMP"):
        for ind in (False, True):
            for k in list(range(-136, -116)) + list(range(118, 140)):
                yield {"shape": "ref", "mnem": mnem, "kind": "pcr", "dir": "self", "n": 0, "k": k, "org": None, "ind": ind}
    # (b6) the target label spelt like a register name or with a leading digit (legal label names; only A, B, D before ,PCR are not)
    for tname in ("X", "Y", "U", "S", "PC", "DP", "CC", "PCR", "9LIVES", "2ND", "EACH", "DH", "FACE"):
        for mnem, kind in (("LEAX", "pcr"), ("LDY", "pcr"), ("BNE", "rel"), ("LBRA", "rel")):
            for direction in ("fwd", "bwd"):
                for n in (0, 5, 126, 130):
                    for ind in ((False, True) if kind == "pcr" else (False,)):
                        if kind == "rel" and mnem == "BNE" and n > 120:
                            continue
                        yield {"shape": "ref", "mnem": mnem, "kind": kind, "dir": direction, "n": n, "k": 0, "org": None, "ind": ind, "tname": tname}
    # (c) bare numeric n,PCR
    for mnem in ("LDA", "LDY", "LEAX", "LDX"):
        for v in c01.V16:
            for sp in ("dec", "hex", "hex4"):
                if R.spell(v, sp) is not None:
                    for ind in (False, True):
                        yield {"shape": "num", "mnem": mnem, "v": v, "sp": sp, "ind": ind}
    # (d) interacting PCR statements
    gaps = range(112, 133)
    labels2 = ["S0", "LA", "M", "LB", "S3"]
    pairs = list(itertools.product(labels2, repeat=2))
    mn2 = [("LEAX", "LEAX")] if not thorough else [("LEAX", "LEAX"), ("LDY", "LEAX"), ("LEAX", "LDY")]
    for ma, mb in mn2:
        for ra, rb in pairs:
            for g1 in gaps:
                for g2 in gaps:
                    yield {"shape": "two", "ma": ma, "mb": mb, "ra": ra, "rb": rb, "g1": g1, "g2": g2, "bform": "pcr"}
    for ra in labels2:
        for g1 in gaps:
            for g2 in gaps:
                yield {"shape": "two", "ma": "LEAX", "mb": "BRA", "ra": ra, "rb": "S3", "g1": g1, "g2": g2, "bform": "rel"}
    if thorough:
        shapes3 = [("LC", "LC", "S0"), ("S4", "S4", "S4"), ("S0", "S0", "S0"), ("LB", "LC", "LA"), ("S4", "LA", "S0"), ("LC", "S4", "LB")]
        for ra, rb, rc in shapes3:
            for g1 in gaps:
                for g2 in gaps:
                    for g3 in gaps:
                        yield {"shape": "three", "r": [ra, rb, rc], "g": [g1, g2, g3]}


def build(case):
    sh = case["shape"]
    if sh == "ref":
        lines = prog_ref(case["mnem"], case["kind"], case["dir"], case["n"], case["k"], case["org"], case["ind"], case.get("filler", "rmb"))
        if case.get("tname"):
            import re as _re
            lines = [_re.sub(r"\bT1\b", case["tname"], ln) for ln in lines]
        if case.get("org_after"):
            lines += [" ORG $4000", "Z9 NOP"]
        return lines
    if sh == "mixed":
        inner = [{"idx16": " LDA 300,X", "idx8": " LDA 100,X"}.get(case["unit"]) or UNITS[case["unit"]][0]] * case["k1"] + \
                [" LDB {},PCR".format("FAR" if case["far"] else "NEAR")] * case["k2"] + [" RMB {}".format(case["g"])]
        tail = ["NEAR NOP", " RMB 300", "FAR NOP"]
        k = case.get("k", 0)
        tgt = "T1" if not k else "T1{:+d}".format(k)
        if case["dir"] == "fwd":
            return ["S1 LDX {},PCR".format(tgt)] + inner + ["T1 NOP"] + tail
        return ["T1 NOP"] + inner + ["S1 LDX {},PCR".format(tgt)] + tail
    if sh == "num":
        t = R.spell(case["v"], case["sp"]) + ",PCR"
        return [" {} {}".format(case["mnem"], "[" + t + "]" if case["ind"] else t), "ZZ9 NOP"]
    if sh == "two":
        b_op = "{},PCR".format(case["rb"]) if case["bform"] == "pcr" else case["rb"]
        return ["S0 NOP", "LA {} {},PCR".format(case["ma"], case["ra"]), " RMB {}".format(case["g1"]), "M NOP",
                "LB {} {}".format(case["mb"], b_op), " RMB {}".format(case["g2"]), "S3 NOP"]
    if sh == "three":
        r, g = case["r"], case["g"]
        return ["S0 NOP", "LA LEAX {},PCR".format(r[0]), " RMB {}".format(g[0]), "LB LEAY {},PCR".format(r[1]), " RMB {}".format(g[1]),
                "LC LDD {},PCR".format(r[2]), " RMB {}".format(g[2]), "S4 NOP"]
    raise ValueError(sh)


def all_programs(tier):
    for c in cases(tier, 0):
        yield build(c)


def refs_of(case):
    """[(statement label, mnemonic, kind, target label, k, indirect)] to verify"""
    sh = case["shape"]
    if sh == "ref":
        t = case.get("tname", "T1")
        return [(t if case["dir"] == "self" else "S1", case["mnem"], case["kind"], t, case["k"], case["ind"])]
    if sh == "mixed":
        return [("S1", "LDX", "pcr", "T1", case.get("k", 0), False)]
    if sh == "two":
        return [("LA", case["ma"], "pcr", case["ra"], 0, False), ("LB", case["mb"], case["bform"], case["rb"], 0, False)]
    if sh == "three":
        r = case["r"]
        return [("LA", "LEAX", "pcr", r[0], 0, False), ("LB", "LEAY", "pcr", r[1], 0, False), ("LC", "LDD", "pcr", r[2], 0, False)]
    return []


def cell_of(case, mnem, kind, dclass):
    sh = case["shape"]
    if sh == "ref":
        return "{}|{}{}|{}|{}|k={}|{}{}".format(mnem, kind, ".ind" if case["ind"] else "", case["dir"], dclass,
                                               case["k"], "org" if case["org"] is not None else "noorg",
                                               ("" if case.get("filler", "rmb") == "rmb" else "." + case["filler"]) + (".then-org" if case.get("org_after") else "") + (".name={}".format(case["tname"]) if case.get("tname") else ""))
    if sh == "num":
        return "{}|num{}|{}|{}".format(mnem, ".ind" if case["ind"] else "", c01.vclass(case["v"]), case["sp"])
    if sh == "mixed":
        return "mixed|{}|{}x{}|{}x{}{}|{}".format(case["dir"], case["k1"], case["unit"], case["k2"], "far" if case["far"] else "near",
                                                  "" if not case.get("k") else "|k={:+d}".format(case["k"]), dclass)
    if sh == "two":
        return "two|{}>{}|{}>{}|{}".format(case["ma"], case["ra"], case["mb"], case["rb"], dclass)
    return "three|{}|{}".format(">".join(case["r"]), dclass)


def dclass(d):
    if d is None:
        return "?"
    if -128 <= d <= 127:
        return "d8" if not (d in (-128, 127, -127, 126)) else "d8edge"
    if -32768 <= d <= 32767:
        return "d16" if not (-140 <= d <= 140) else "d16near"
    return "dwide"


def expected_disp_ref(case):
    """true displacement of the single-reference shape, from the datasheet sizes (used when the program is rejected)"""
    mnem, kind, n, k = case["mnem"], case["kind"], case["n"], case["k"]
    if kind == "rel":
        size = R.OPC[list(R.MNEM[mnem].values())[0]][2]
        if case["dir"] == "fwd":
            return n + k
        if case["dir"] == "bwd":
            return -(1 + n + size) + k
        return -size + k
    return None


def check_case(case):
    lines = build(case)
    out = common.assemble_confirm(lines, budget=1.5)
    res = {"outcome": out["kind"], "state": out["kind"], "nontrivial": False}
    viol = []

    def bad(cell, symptom, expected, observed):
        viol.append({"component": "disp", "cell": cell, "symptom": symptom, "expected": expected, "observed": observed,
                     "input": dict(case, lines=lines)})

    if out["kind"] != "OK":
        if out["kind"] == "DIAG" and case["shape"] == "ref" and case["kind"] == "rel":
            d = expected_disp_ref(case)
            short = case["mnem"] in SHORT
            if (short and -128 <= d <= 127) or (not short and -32768 <= d <= 32767):
                bad(cell_of(case, case["mnem"], "rel", dclass(d)), "in-range branch rejected", "accepted, d={}".format(d), common.outcome_brief(out))
        elif out["kind"] == "DIAG" and case["shape"] == "two" and case["bform"] == "rel" and case["g2"] > 127:
            pass        # the short branch over g2 > 127 filler bytes is legitimately rejected
        elif out["kind"] == "DIAG" and case["shape"] != "ref":
            bad(cell_of(case, case.get("mnem", ""), "pcr", "?"), "valid PCR program rejected", "accepted", common.outcome_brief(out))
        elif out["kind"] == "DIAG" and case["kind"] == "pcr":
            bad(cell_of(case, case["mnem"], "pcr", "?"), "valid PCR program rejected", "accepted", common.outcome_brief(out))
        if viol:
            res["viol"] = viol
        res["state"] = out["kind"] + ":" + case["shape"]
        return res
    image, addrs, syms = out["image"], out["addrs"], out["symbols"]
    origin = out["origin"] or 0
    if case.get("org_after"):
        origin = case["org"] or 0          # the image starts with the first block; the reported origin is the later ORG (KF-C02-1)
    if case["shape"] == "num":
        v = case["v"]
        rec, why = R.check_statement_bytes(case["mnem"], image[:-1], addrs[0])
        cell = cell_of(case, case["mnem"], "num", "")
        if rec is None:
            bad(cell, "malformed", "one instruction", why + " " + image.hex())
        elif rec.get("sub") != "pcr" or rec["indirect"] != case["ind"] or (rec["disp"] & 0xFFFF) != (v & 0xFFFF):
            bad(cell, "displacement is not n", "d={} ({})".format(v, "indirect" if case["ind"] else "direct"),
                "decoded {} <- {}".format(rec.get("key"), image[:-1].hex().upper()))
        res["state"] = "num:{}:{}".format(case["mnem"], rec.get("key") if rec else None)
        res["nontrivial"] = rec is not None
    else:
        keys = []
        for lab, mnem, kind, tgt, k, ind in refs_of(case):
            a = syms.get(lab)
            t = syms.get(tgt)
            if a is None or t is None:
                bad(cell_of(case, mnem, kind, "?"), "label missing from symbol table", lab + "," + tgt, str(syms))
                continue
            want = (t + k) & 0xFFFF
            try:
                rec = R.decode(image[a - origin:], a)
            except R.Illegal as e:
                bad(cell_of(case, mnem, kind, "?"), "undecodable", "one {} instruction".format(mnem), str(e))
                continue
            true_d = None
            if mnem not in rec["mnems"]:
                bad(cell_of(case, mnem, kind, "?"), "wrong instruction at listed address", mnem, "/".join(rec["mnems"]))
                continue
            nxt = a + rec["len"]
            true_d = want - nxt
            if true_d > 32767:
                true_d -= 65536
            if true_d < -32768:
                true_d += 65536
            cell = cell_of(case, mnem, kind, dclass(true_d))
            if kind == "rel":
                if rec["mode"] not in ("REL8", "REL16"):
                    bad(cell, "not a branch encoding", "REL", rec["mode"])
                elif rec["target"] != want:
                    sym = "target off by {}".format(_d(((rec["target"] - want + 32768) & 0xFFFF) - 32768))
                    if rec["mode"] == "REL8" and not -128 <= true_d <= 127:
                        sym = "out-of-range short branch accepted"
                    bad(cell, sym, "target ${:04X} (d={})".format(want, true_d),
                        "target ${:04X} d={} <- {}".format(rec["target"], rec["disp"], image[a - origin:a - origin + rec["len"]].hex().upper()))
            else:
                if rec.get("sub") != "pcr":
                    bad(cell, "not a PC-relative encoding", "n,PCR post-byte", str(rec.get("key")))
                elif rec["indirect"] != ind:
                    bad(cell, "indirection flag wrong", str(ind), str(rec["indirect"]))
                elif rec["target"] != want:
                    sym = "target off by {}".format(_d(((rec["target"] - want + 32768) & 0xFFFF) - 32768))
                    if rec["width"] == 8 and not -128 <= true_d <= 127:
                        sym = "8-bit form cannot hold d"
                    bad(cell, sym, "target ${:04X} (d={})".format(want, true_d),
                        "target ${:04X} d={} width={} <- {}".format(rec["target"], rec["disp"], rec["width"],
                                                                     image[a - origin:a - origin + rec["len"]].hex().upper()))
            keys.append("{}:{}:{}".format(mnem, rec["mode"], rec.get("width", "")) + ":" + dclass(true_d))
        res["state"] = case["shape"] + ":" + ",".join(keys)
        res["nontrivial"] = True
    if viol:
        res["viol"] = viol
    if zlib.crc32(repr(sorted(case.items())).encode()) % 5003 == 0:
        res["sample"] = {"lines": lines, "outcome": common.outcome_brief(out)[:120]}
    return res


def _d(x):
    return x if -9 <= x <= 9 else ("many" if x > 0 else "-many")


def describe(tier):
    return {
        "alphabet": "(a) 19 short + 19 long branches, forward/backward/self, RMB filler n; targets L, L+-k; with ORG at 6 origins; "
                    "(b) every indexed-capable mnemonic with L,PCR and [L,PCR], same sweeps; (b2) distances 100..140 built from constant-offset indexed / extended instructions instead of RMB; (b3) spans mixing 0-4 constant-offset indexed statements, 0-3 other unsized PCR statements (near or far) and RMB filler; (b6) target labels named X Y U S PC DP CC PCR 9LIVES 2ND EACH DH FACE; (b3k) the same with label+-n (n = 4, 8, 16) as the target; (b5) a branch / label,PCR statement directly followed by an ORG; (b4) the same with 1 or 3 statements of each of 33 size-computation paths (indexed forms, immediates, direct/extended, stack lists, FCB/FDB single and lists, FCC, RMB, long branches) in the span; (c) bare n,PCR over V16 x 3 spellings; "
                    "(d) two PCR statements (and PCR + short branch) referencing any of 5 labels around them, both gaps over 112..132"
                    + ("; three PCR statements, 6 reference shapes, three gaps over 112..132" if tier == "thorough" else ""),
        "bound": "n in 0..140 for {} mnemonics, boundary band {} for the rest; +-10 around 32767 for {}".format(
            "all" if tier == "thorough" else "6 branch + 2 indexed", BAND8, "all long branches / 11 indexed rows" if tier == "thorough" else "LBRA,LBNE,LEAX,LDY"),
        "oracle": "decode the statement at (listed address - origin) in the image; decoded target = symbol-table(label)+k mod 65536; "
                  "8-bit forms only when -128<=d<=127; short branch out of range => diagnostic; in-range programs must be accepted",
        "rule": "complete enumeration of the stated sweeps; state = (shape, decoded mode/width, displacement class); non-trivial = accepted",
        "assumptions": ["INTERNAL/HANG outcomes are counted here and reported under C13"],
    }
