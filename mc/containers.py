"""Shared helpers for the container checks: file specs (JSON-able) <-> CoCoFile objects, data patterns."""
from . import common


def pattern(n, pat):
    """n data bytes following a named content pattern"""
    if pat == "ramp":
        return bytes(i & 0xFF for i in range(n))
    if pat == "ramp7":
        return bytes((i * 7 + 3) & 0xFF for i in range(n))
    if pat == "ff":
        return b"\xFF" * n
    if pat == "00":
        return bytes(n)
    if pat == "55":
        return b"\x55" * n
    if pat == "3c":
        return b"\x3C" * n
    if pat in ("dos", "unix", "mac", "mixeol"):      # text with line ends of one convention (or all of them), an end-of-file mark, a TAB and a NUL
        eol = {"dos": b"\r\n", "unix": b"\n", "mac": b"\r"}.get(pat)
        if eol:
            unit = b"10 PRINT \"HI\"" + eol + b"20 GOTO 10" + eol + eol + b"\tREM" + eol + b"\x1a"
        else:
            unit = b"A\r\nB\n\rC\r\r\nD\n\nE\r\x00\n\x1a\x1a\r\n"
        return bytes(unit[i % len(unit)] for i in range(n))
    if pat.startswith("m"):            # marker triples 55 3C xx tiled, with a phase: m00.p0, m01.p2, mFF.p1
        xx = int(pat[1:3], 16)
        phase = int(pat.split(".p")[1]) if ".p" in pat else 0
        tri = bytes([0x55, 0x3C, xx])
        return bytes(tri[(i + phase) % 3] for i in range(n))
    if pat == "tape":                  # the data is itself a complete, well-formed cassette image (a .CAS file stored inside a container)
        from .ref import tape as _tape
        inner = _tape.write([dict(name="INNER", type=2, dtype=0, load=0x1000, exec=0x1000, data=bytes(range(40)))], 16, 16, None, 4)
        return (inner + bytes(n))[:n] if n >= len(inner) else inner[:n]
    if pat == "dir":                   # plants plausible directory entries / FAT bytes everywhere
        ent = b"FAKEFILEBIN\x02\x00\x05\x00\x10" + bytes(16)
        return bytes(ent[i % 32] for i in range(n))
    raise ValueError(pat)


def spec(name="FILE", ext="BIN", ftype=2, dtype=0, load=0x0E00, exec_=0x0E00, n=10, pat="ramp"):
    return {"name": name, "ext": ext, "type": ftype, "dtype": dtype, "load": load, "exec": exec_, "n": n, "pat": pat}


def to_coco(s):
    from cocoasm.virtualfiles.coco_file import CoCoFile
    from cocoasm.values import NumericValue
    kw = {}
    if s.get("noaddr"):   # a file that has no addresses at all (what the disk reader hands over for BASIC / data / text files, and a program without ORG)
        from cocoasm.values import NoneValue
        kw["load_addr"] = NoneValue()
        kw["exec_addr"] = NoneValue()
    if "gaps" in s:       # a file that was read from a tape carries the tape's gap flag
        kw["gaps"] = NumericValue(s["gaps"])
    kw.setdefault("load_addr", NumericValue(s["load"]))
    kw.setdefault("exec_addr", NumericValue(s["exec"]))
    return CoCoFile(name=s["name"], extension=s.get("ext", ""), type=NumericValue(s["type"]), data_type=NumericValue(s["dtype"]),
                    data=list(pattern(s["n"], s["pat"])), **kw)


def brief(s):
    return "{}.{}:t{}d{:02X}:{}@{}".format(s["name"], s.get("ext", ""), s["type"], s["dtype"], s["n"], s["pat"])


def listed_to_dict(cf):
    """a CoCoFile returned by list_files -> plain values (addresses None when the value is a NoneValue)"""
    def num(v):
        try:
            return None if v.is_none() else v.int
        except Exception:
            return None
    return {"name": cf.name, "ext": cf.extension, "type": num(cf.type), "dtype": num(cf.data_type), "load": num(cf.load_addr),
            "exec": num(cf.exec_addr), "data": bytes(cf.data)}


def name8(s):
    return s.upper()[:8].ljust(8)


def compare_listed(spec_, got, kind, check_addr=True):
    """-> None or (field, expected, observed). kind: 'cas' | 'dsk'"""
    want_data = pattern(spec_["n"], spec_["pat"])
    gname = got["name"].upper().rstrip(" \0")[:8].ljust(8) if isinstance(got["name"], str) else got["name"]
    if gname != name8(spec_["name"]).rstrip().ljust(8):
        return ("name", name8(spec_["name"]), got["name"])
    if kind == "dsk":
        wext = spec_.get("ext", "").upper()[:3].ljust(3)
        if (got["ext"] or "").upper().ljust(3)[:3] != wext:
            return ("extension", wext, got["ext"])
    if got["type"] != spec_["type"]:
        return ("type", spec_["type"], got["type"])
    if got["dtype"] != spec_["dtype"]:
        return ("data type", spec_["dtype"], got["dtype"])
    if check_addr:
        if got["load"] != spec_["load"]:
            return ("load address", spec_["load"], got["load"])
        if got["exec"] != spec_["exec"]:
            return ("exec address", spec_["exec"], got["exec"])
    if got["data"] != want_data:
        if len(got["data"]) != len(want_data):
            return ("data length", len(want_data), len(got["data"]))
        i = next(k for k in range(len(want_data)) if got["data"][k] != want_data[k])
        return ("data bytes", "byte {} = {:02X}".format(i, want_data[i]), "{:02X}".format(got["data"][i]))
    return None


# --------------------------------------------------------------------------------------
# what a user sees: `file_util.py <image> --list`

_TYPE_WORDS = {0: "BASIC", 1: "Data", 2: "Object", 3: "Text"}
_DTYPE_WORDS = {0x00: "Binary", 0xFF: "ASCII"}


def cli_list(path):
    """run file_util --list in-process -> (status, [one dict of printed fields per '-- File #n --' section], raw text)"""
    import re
    from . import cli
    status, out = cli.file_util(path, list_=True)
    sections = re.split(r"^-- File #\d+ --\s*$", out, flags=re.M)[1:]
    files = []
    for sec in sections:
        d = {}
        for key, rx in (("name", r"^Filename:[ \t]*(.*)$"), ("ext", r"^Extension:[ \t]*(.*)$"), ("type", r"^File Type:[ \t]*(.*)$"),
                        ("dtype", r"^Data Type:[ \t]*(.*)$"), ("load", r"^Load Addr:[ \t]*\$([0-9A-Fa-f]+)[ \t]*$"),
                        ("exec", r"^Exec Addr:[ \t]*\$([0-9A-Fa-f]+)[ \t]*$"), ("len", r"^Data Len:[ \t]*(\d+) bytes[ \t]*$")):
            m = re.search(rx, sec, flags=re.M)
            if m:
                d[key] = m.group(1)
        files.append(d)
    return status, files, out


def compare_cli(specs, printed, kind):
    """-> None or (symptom, expected, observed): the printed listing against the file specs (fields that are not printed are not judged)"""
    if len(printed) != len(specs):
        return "file_util --list prints {} files".format("fewer" if len(printed) < len(specs) else "more"), len(specs), len(printed)
    for i, (s, d) in enumerate(zip(specs, printed)):
        if "name" in d and d["name"].upper().rstrip(" \0")[:8].rstrip() != name8(s["name"]).rstrip():
            return "file_util --list: name differs", name8(s["name"]), d["name"]
        if kind == "dsk" and "ext" in d and d["ext"].upper().strip()[:3] != s.get("ext", "").upper()[:3].strip():
            return "file_util --list: extension differs", s.get("ext"), d["ext"]
        if "type" in d and d["type"].strip() != _TYPE_WORDS.get(s["type"], "?"):
            return "file_util --list: file type differs", _TYPE_WORDS.get(s["type"]), d["type"]
        if "dtype" in d and s["dtype"] in _DTYPE_WORDS and d["dtype"].strip() != _DTYPE_WORDS[s["dtype"]]:
            return "file_util --list: data type differs", _DTYPE_WORDS[s["dtype"]], d["dtype"]
        if s["type"] == 2:
            for key, word in (("load", "load address"), ("exec", "exec address")):
                if key in d and int(d[key], 16) != s[key]:
                    return "file_util --list: {} differs".format(word), "{:04X}".format(s[key]), d[key]
        if "len" in d and int(d["len"]) != s["n"]:
            return "file_util --list: data length differs", s["n"], d["len"]
    return None
