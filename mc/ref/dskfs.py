"""
Disk BASIC (.dsk, 35 tracks x 18 sectors x 256 bytes) reference: fsck, reader and an independent
writer (DESIGN.md appendix C). Geometry is written from the Disk BASIC documentation as
track*4608 + half*2304, not in the form the code under test uses.
"""
IMAGE_SIZE = 35 * 18 * 256
GRAN = 2304
NGRAN = 68
TRACK = 18 * 256
FAT_OFF = 17 * TRACK + 1 * 256
DIR_OFF = 17 * TRACK + 2 * 256
NSLOTS = 72


def gran_off(g):
    track = g // 2 + (1 if g >= 34 else 0)
    return track * TRACK + (g % 2) * GRAN


class FsError(Exception):
    pass


def entries(img):
    out = []
    for slot in range(NSLOTS):
        e = img[DIR_OFF + 32 * slot:DIR_OFF + 32 * slot + 32]
        if e[0] in (0x00, 0xFF):
            continue
        out.append({"slot": slot, "name": bytes(e[0:8]), "ext": bytes(e[8:11]), "type": e[11], "ascii": e[12], "first": e[13],
                    "last_bytes": (e[14] << 8) | e[15]})
    return out


def chain_of(img, first):
    """-> (granules, sectors_in_last) ; raises FsError"""
    fat = img[FAT_OFF:FAT_OFF + NGRAN]
    g = first
    seen = []
    while True:
        if not 0 <= g < NGRAN:
            raise FsError("chain leaves granules 0-67 (granule {})".format(g))
        if g in seen:
            raise FsError("chain revisits granule {}".format(g))
        seen.append(g)
        v = fat[g]
        if v == 0xFF:
            raise FsError("chain runs into free granule {}".format(g))
        if v >= 0xC0:
            n = v - 0xC0
            if n > 9:
                raise FsError("last-granule marker ${:02X} has more than 9 sectors".format(v))
            return seen, n
        g = v


def stream_of(img, e):
    gr, n = chain_of(img, e["first"])
    length = (len(gr) - 1) * GRAN + (max(n, 1) - 1) * 256 + e["last_bytes"]
    if n == 0:
        length = (len(gr) - 1) * GRAN
    raw = b"".join(bytes(img[gran_off(g):gran_off(g) + GRAN]) for g in gr)
    return gr, n, length, raw[:length]


def parse_stream(e, stream):
    """-> dict(load, exec, data) per file kind; raises FsError"""
    if e["type"] == 2:
        if len(stream) < 10 or stream[0] != 0x00:
            raise FsError("machine-language stream has no 00 header")
        ln = (stream[1] << 8) | stream[2]
        load = (stream[3] << 8) | stream[4]
        if len(stream) != ln + 10:
            raise FsError("stored stream is {} bytes but header+data+trailer need {}".format(len(stream), ln + 10))
        t = stream[5 + ln:]
        if t[0] != 0xFF or t[1] != 0 or t[2] != 0:
            raise FsError("machine-language trailer is {} not FF 00 00".format(t[:3].hex()))
        return {"load": load, "exec": (t[3] << 8) | t[4], "data": stream[5:5 + ln]}
    if e["ascii"] == 0xFF:
        return {"load": None, "exec": None, "data": stream}
    if len(stream) < 3 or stream[0] != 0xFF:
        raise FsError("BASIC stream has no FF header")
    ln = (stream[1] << 8) | stream[2]
    if len(stream) != ln + 3:
        raise FsError("stored stream is {} bytes but header+data need {}".format(len(stream), ln + 3))
    return {"load": None, "exec": None, "data": stream[3:]}


def read_files(img):
    out = []
    for e in entries(img):
        gr, n, length, stream = stream_of(img, e)
        f = parse_stream(e, stream)
        f.update(name=e["name"].decode("latin1"), ext=e["ext"].decode("latin1"), type=e["type"], dtype=e["ascii"], chain=gr)
        out.append(f)
    return out


def fsck(img, blank=None):
    """-> list of (category, detail) problems; [] = consistent (C08, sentence by sentence)"""
    probs = []
    if len(img) != IMAGE_SIZE:
        return [("size", "image is {} bytes, not 161280".format(len(img)))]
    fat = img[FAT_OFF:FAT_OFF + NGRAN]
    owner = {}
    for e in entries(img):
        try:
            gr, n, length, stream = stream_of(img, e)
        except FsError as x:
            probs.append(("chain", "slot {}: {}".format(e["slot"], x)))
            continue
        for g in gr:
            if g in owner:
                probs.append(("shared", "granule {} belongs to slots {} and {}".format(g, owner[g], e["slot"])))
            owner[g] = e["slot"]
        if e["last_bytes"] > 256:
            probs.append(("length", "slot {}: {} bytes used in last sector".format(e["slot"], e["last_bytes"])))
        if n == 0 and length != 0 and len(gr) == 1:
            probs.append(("length", "slot {}: zero sectors in last granule of a non-empty file".format(e["slot"])))
        try:
            parse_stream(e, stream)
        except FsError as x:
            probs.append(("stream", "slot {}: {}".format(e["slot"], x)))
    for g in range(NGRAN):
        if fat[g] != 0xFF and g not in owner:
            probs.append(("orphan", "FAT entry {} = ${:02X} belongs to no chain".format(g, fat[g])))
    if blank is None:
        blank = b"\xFF" * IMAGE_SIZE
    allowed = bytearray(IMAGE_SIZE)
    for g in owner:
        o = gran_off(g)
        allowed[o:o + GRAN] = b"\x01" * GRAN
    allowed[FAT_OFF:FAT_OFF + 256] = b"\x01" * 256
    allowed[DIR_OFF:DIR_OFF + NSLOTS * 32] = b"\x01" * (NSLOTS * 32)
    if bytes(img) != bytes(blank):
        dirty = [i for i in range(IMAGE_SIZE) if not allowed[i] and img[i] != blank[i]]
        if dirty:
            where = "track 17" if 17 * TRACK <= dirty[0] < 18 * TRACK else "unallocated granule"
            probs.append(("dirty", "{} byte(s) outside allocated granules/FAT/directory differ from a blank image, first at offset {} ({})".format(
                len(dirty), dirty[0], where)))
    return probs


def free_granules(img):
    return [g for g in range(NGRAN) if img[FAT_OFF + g] == 0xFF]


def free_slots(img):
    return [s for s in range(NSLOTS) if img[DIR_OFF + 32 * s] in (0x00, 0xFF)]


def make_stream(kind, data, load=0, exec_=0):
    """kind: 'ml' | 'basic' | 'ascii'"""
    if kind == "ml":
        return bytes([0, len(data) >> 8, len(data) & 0xFF, load >> 8, load & 0xFF]) + bytes(data) + bytes([0xFF, 0, 0, exec_ >> 8, exec_ & 0xFF])
    if kind == "basic":
        return bytes([0xFF, len(data) >> 8, len(data) & 0xFF]) + bytes(data)
    return bytes(data)


def write(files, fill=0xFF, killed=(), tight=False):
    """
    Independent writer. files: dicts name, ext, type, dtype, stream(bytes), chain(list of granules, long enough), slot(optional).
    killed: directory slots that hold a KILLed file (first byte $00, the rest of the old entry left behind, its granules free).
    tight: a stream that ends exactly at a sector / granule boundary is stored the way Disk BASIC stores it - no spare granule, the
    last sector counted as full (256 bytes in it) - instead of with an empty extra sector.
    """
    img = bytearray([fill]) * IMAGE_SIZE
    img[FAT_OFF:FAT_OFF + 256] = b"\xFF" * NGRAN + b"\x00" * (256 - NGRAN)
    for k, f in enumerate(files):
        stream = f["stream"]
        need = len(stream) // GRAN + 1
        if tight and stream and len(stream) % 256 == 0:
            need = (len(stream) + GRAN - 1) // GRAN
            chain = f["chain"][:need]
            for i, g in enumerate(chain):
                part = stream[i * GRAN:(i + 1) * GRAN]
                img[gran_off(g):gran_off(g) + len(part)] = part
                if i + 1 < need:
                    img[FAT_OFF + g] = chain[i + 1]
            tail = len(stream) - (need - 1) * GRAN
            img[FAT_OFF + chain[-1]] = 0xC0 + tail // 256
            slot = f.get("slot", k)
            img[DIR_OFF + 32 * slot:DIR_OFF + 32 * slot + 32] = f["name"].upper().encode("latin1")[:8].ljust(8) + \
                f["ext"].upper().encode("latin1")[:3].ljust(3) + bytes([f["type"], f["dtype"], chain[0], 0x01, 0x00]) + bytes(16)
            continue
        chain = f["chain"][:need]
        assert len(chain) == need, "chain too short"
        for i, g in enumerate(chain):
            part = stream[i * GRAN:(i + 1) * GRAN]
            img[gran_off(g):gran_off(g) + len(part)] = part
            if i + 1 < need:
                img[FAT_OFF + g] = chain[i + 1]
        tail = len(stream) - (need - 1) * GRAN
        img[FAT_OFF + chain[-1]] = 0xC0 + tail // 256 + 1
        slot = f.get("slot", k)
        e = f["name"].upper().encode("latin1")[:8].ljust(8) + f["ext"].upper().encode("latin1")[:3].ljust(3) + \
            bytes([f["type"], f["dtype"], chain[0], (tail % 256) >> 8, (tail % 256) & 0xFF]) + bytes(16)
        img[DIR_OFF + 32 * slot:DIR_OFF + 32 * slot + 32] = e
    for slot in killed:
        img[DIR_OFF + 32 * slot:DIR_OFF + 32 * slot + 32] = b"\x00LDFILE BIN" + bytes([2, 0, 5, 0, 77]) + bytes(16)
    return bytes(img)
