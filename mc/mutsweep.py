"""
Maintainer tool: a mechanical mutation sweep over the repository's source, used to look for ALPHABET GAPS in the checks
(DESIGN.md section 11). It is not one of the registered checks and decides no property.

  python -m mc.mutsweep gen    OUT.jsonl [--files a.py,b.py]        enumerate every first-order mutant (deterministic)
  python -m mc.mutsweep suite  OUT.jsonl SUITE.jsonl [--jobs 14]    keep the mutants the repository's own suite does not notice
  python -m mc.mutsweep checks SUITE.jsonl RESULT.jsonl [--jobs 4] [--nproc 4] [--only-op ..] [--limit N]
  python -m mc.mutsweep report RESULT.jsonl

Operators (single-line, first order): comparison boundary (< <= > >= == != swapped with the neighbour), and/or,
+/-, integer constant +1 / -1, `not` dropped, statement deleted (assignment, augmented assignment, bare call, raise -> pass).
Every mutant is applied to a scratch copy of /repo under /var/tmp (never to /repo), and the copy is removed afterwards.
"""
import argparse
import ast
import json
import os
import shutil
import subprocess
import sys
import tempfile
import time
from concurrent.futures import ThreadPoolExecutor

PY = "/venv/bin/python"
REPO = "/repo"
FILES = ["cocoasm/instruction.py", "cocoasm/operands.py", "cocoasm/program.py", "cocoasm/statement.py", "cocoasm/values.py",
         "cocoasm/operand_type.py", "cocoasm/virtualfiles/binary.py", "cocoasm/virtualfiles/cassette.py",
         "cocoasm/virtualfiles/coco_file.py", "cocoasm/virtualfiles/disk.py", "cocoasm/virtualfiles/source_file.py",
         "cocoasm/virtualfiles/virtual_file.py", "cocoasm/virtualfiles/virtual_file_container.py", "assembler.py", "file_util.py"]

ASM_ORDER = ["C12", "C01", "C03", "C04", "C05", "C02", "C19", "C17", "C18", "C13", "C11"]
CONT_ORDER = ["C14", "C06", "C08", "C15", "C16", "C10", "C07", "C11", "C09"]
ORDER = {
    "cocoasm/virtualfiles/cassette.py": CONT_ORDER, "cocoasm/virtualfiles/disk.py": CONT_ORDER,
    "cocoasm/virtualfiles/binary.py": ["C11", "C10", "C16"], "cocoasm/virtualfiles/virtual_file.py": CONT_ORDER,
    "cocoasm/virtualfiles/virtual_file_container.py": CONT_ORDER, "file_util.py": ["C16", "C10", "C09"],
    "cocoasm/virtualfiles/coco_file.py": CONT_ORDER + ["C01", "C02"],
    "cocoasm/virtualfiles/source_file.py": ["C19", "C13", "C11", "C01"],
    "assembler.py": ["C11", "C10", "C13", "C19", "C09"],
}

CMP = {"<": "<=", "<=": "<", ">": ">=", ">=": ">", "==": "!=", "!=": "=="}


def sh(cmd, cwd=None, env=None, timeout=7200):
    """run in its own process group so that a timeout takes the grandchildren (a hanging mutant) with it"""
    import signal
    p = subprocess.Popen(cmd, shell=True, cwd=cwd, env=env, stdout=subprocess.PIPE, stderr=subprocess.STDOUT, text=True, start_new_session=True)
    try:
        out, _ = p.communicate(timeout=timeout)
    except subprocess.TimeoutExpired:
        try:
            os.killpg(p.pid, signal.SIGKILL)
        except ProcessLookupError:
            pass
        p.wait()
        raise
    return p.returncode, out


def _between(lines, a, b):
    """source text between node a's end and node b's start when on one line -> (lineno, col0, col1, text)"""
    if a.end_lineno != b.lineno:
        return None
    ln = a.end_lineno
    return ln, a.end_col_offset, b.col_offset, lines[ln - 1][a.end_col_offset:b.col_offset]


def mutants_of(path, src):
    tree = ast.parse(src)
    # ast columns are utf8 byte offsets; the sources are ASCII
    lines = src.split("\n")
    out = []

    def add(op, ln, c0, c1, new):
        old = lines[ln - 1][c0:c1]
        if old != new:
            out.append({"file": path, "line": ln, "c0": c0, "c1": c1, "old": old, "new": new, "op": op})

    def tok(op, span, table):
        if not span:
            return
        ln, c0, c1, text = span
        t = text.strip().strip("()").strip()
        if t in table:
            i = text.index(t)
            add(op, ln, c0 + i, c0 + i + len(t), table[t])

    docstrings = set()
    for node in ast.walk(tree):
        if isinstance(node, (ast.FunctionDef, ast.ClassDef, ast.Module)) and node.body and isinstance(node.body[0], ast.Expr) \
                and isinstance(node.body[0].value, ast.Constant) and isinstance(node.body[0].value.value, str):
            docstrings.add(id(node.body[0]))
    for node in ast.walk(tree):
        if isinstance(node, ast.Compare):
            prev = node.left
            for o, comp in zip(node.ops, node.comparators):
                tok("cmp", _between(lines, prev, comp), CMP)
                prev = comp
        elif isinstance(node, ast.BoolOp):
            for a, b in zip(node.values, node.values[1:]):
                tok("bool", _between(lines, a, b), {"and": "or", "or": "and"})
        elif isinstance(node, ast.BinOp) and isinstance(node.op, (ast.Add, ast.Sub)):
            tok("arith", _between(lines, node.left, node.right), {"+": "-", "-": "+"})
        elif isinstance(node, ast.Constant) and type(node.value) is int and node.lineno == node.end_lineno:
            v = node.value
            add("const+1", node.lineno, node.col_offset, node.end_col_offset, str(v + 1))
            if v > 0:
                add("const-1", node.lineno, node.col_offset, node.end_col_offset, str(v - 1))
        elif isinstance(node, ast.UnaryOp) and isinstance(node.op, ast.Not) and node.lineno == node.end_lineno:
            add("not", node.lineno, node.col_offset, node.operand.col_offset, "")
        elif isinstance(node, (ast.Assign, ast.AugAssign, ast.Raise, ast.Expr)) and node.lineno == node.end_lineno \
                and id(node) not in docstrings:
            if isinstance(node, ast.Expr) and not isinstance(node.value, ast.Call):
                continue
            add("del." + type(node).__name__.lower(), node.lineno, node.col_offset, node.end_col_offset, "pass")
    out.sort(key=lambda m: (m["line"], m["c0"], m["op"], m["new"]))
    return out


def cmd_gen(a):
    files = a.files.split(",") if a.files else FILES
    n = 0
    with open(a.out, "w") as f:
        for p in files:
            src = open(os.path.join(REPO, p)).read()
            for m in mutants_of(p, src):
                m["id"] = "m{:05d}".format(n)
                n += 1
                f.write(json.dumps(m) + "\n")
    print("mutants:", n)


def make_copy(m):
    scratch = tempfile.mkdtemp(prefix="mut_", dir="/var/tmp")
    copy = os.path.join(scratch, "repo")
    sh("rsync -a --exclude .git --exclude __pycache__ {}/ {}/".format(REPO, copy))
    p = os.path.join(copy, m["file"])
    lines = open(p).read().split("\n")
    ln = lines[m["line"] - 1]
    assert ln[m["c0"]:m["c1"]] == m["old"], (m, ln)
    lines[m["line"] - 1] = ln[:m["c0"]] + m["new"] + ln[m["c1"]:]
    open(p, "w").write("\n".join(lines))
    return scratch, copy


def suite_one(m):
    scratch, copy = make_copy(m)
    try:
        rc, out = sh("{} -m py_compile {}".format(PY, m["file"]), cwd=copy)
        if rc != 0:
            return dict(m, suite="nocompile")
        try:
            rc, out = sh("{} -m pytest -q -p no:cacheprovider -x --deselect test/test_integration.py::TestIntegration::test_pshu_multi_regression "
                         "--deselect test/test_integration.py::TestIntegration::test_pshu_regression "
                         "--deselect test/test_integration.py::TestIntegration::test_pulu_multi_regression "
                         "--deselect test/test_integration.py::TestIntegration::test_pulu_regression 2>&1 | tail -1".format(PY),
                         cwd=copy, timeout=300)
        except subprocess.TimeoutExpired:
            return dict(m, suite="timeout")
        return dict(m, suite=out.strip()[-80:])
    finally:
        shutil.rmtree(scratch, ignore_errors=True)


def cmd_suite(a):
    ms = [json.loads(x) for x in open(a.inp)]
    done = set()
    if os.path.exists(a.out):
        done = set(json.loads(x)["id"] for x in open(a.out))
    ms = [m for m in ms if m["id"] not in done]
    with open(a.out, "a") as f, ThreadPoolExecutor(a.jobs) as ex:
        for i, r in enumerate(ex.map(suite_one, ms)):
            f.write(json.dumps(r) + "\n")
            f.flush()
            if i % 100 == 0:
                print(i, r["id"], r["suite"], flush=True)


def survived_suite(r):
    s = r["suite"]
    return "490 passed" in s and "failed" not in s and "error" not in s


COST = ["C14", "C06", "C05", "C04", "C10", "C01", "C02", "C03", "C08", "C15", "C16", "C12", "C17", "C19", "C07", "C11", "C13", "C18", "C09"]
_COVER = {}


def covering(m, covdir):
    """checks whose quick run executes the mutated line (from `VERIF_COVER` runs on the unchanged tree), cheapest first"""
    if not _COVER:
        for c in COST:
            p = os.path.join(covdir, c + ".lines")
            _COVER[c] = set(open(p).read().split()) if os.path.exists(p) else set()
    key = "{}:{}".format(m["file"], m["line"])
    cov = [c for c in COST if key in _COVER[c]]
    if not cov and m["file"] in ORDER and m["op"].startswith("const"):
        cov = [c for c in COST if c in ORDER[m["file"]]]       # a continuation line of a table literal: no line event of its own
    if len(cov) >= 12:                      # an import-time line (constant, table row): every check executes it
        rel = ORDER.get(m["file"], ASM_ORDER)
        cov = [c for c in COST if c in rel]
    return cov


def checks_one(args):
    m, nproc, tier, covdir = args
    order = covering(m, covdir)
    res = dict(m, killed_by=None, runs=[], covered_by=order)
    if not order:
        res["killed_by"] = None
        res["uncovered"] = True
        return res
    scratch, copy = make_copy(m)
    try:
        env = dict(os.environ, VERIF_REPO=copy, VERIF_NO_EVIDENCE="1", VERIF_FAILFAST="1", VERIF_NPROC=str(nproc))
        for c in order:
            t0 = time.time()
            try:
                rc, out = sh("{} -m mc.run {} --tier {}".format(PY, c, tier), cwd="/verif", env=env, timeout=3600)
            except subprocess.TimeoutExpired:
                rc, out = 99, "TIMEOUT"
            res["runs"].append([c, rc, round(time.time() - t0, 1)])
            if rc == 1:
                det = [ln.strip() for ln in out.splitlines() if ln.startswith("  cell=")][:1]
                res["killed_by"] = c
                res["first"] = det[0][:200] if det else ""
                break
            if rc != 0:
                res["killed_by"] = c + "(crash)"
                res["first"] = out.strip()[-300:]
                break
    finally:
        shutil.rmtree(scratch, ignore_errors=True)
    return res


def cmd_checks(a):
    ms = [json.loads(x) for x in open(a.inp)]
    ms = [m for m in ms if survived_suite(m)]
    if a.only_op:
        ms = [m for m in ms if m["op"] in a.only_op.split(",")]
    if a.only_file:
        ms = [m for m in ms if m["file"] in a.only_file.split(",")]
    done = set()
    if os.path.exists(a.out):
        done = set(json.loads(x)["id"] for x in open(a.out))
    ms = [m for m in ms if m["id"] not in done]
    if a.stride > 1:
        ms = ms[a.offset::a.stride]
    if a.limit:
        ms = ms[:a.limit]
    print("to run:", len(ms), flush=True)
    if ms:
        covering(ms[0], a.covdir)          # load the coverage maps before the threads start
    from concurrent.futures import as_completed
    with open(a.out, "a") as f, ThreadPoolExecutor(a.jobs) as ex:
        futs = [ex.submit(checks_one, (m, a.nproc, a.tier, a.covdir)) for m in ms]
        for i, fu in enumerate(as_completed(futs)):
            r = fu.result()
            f.write(json.dumps(r) + "\n")
            f.flush()
            print(i, r["id"], r["file"], r["line"], r["op"], repr(r["old"]), "->", repr(r["new"]), "KILLED " + r["killed_by"] if r["killed_by"] else "SURVIVED",
                  sum(x[2] for x in r["runs"]), flush=True)


def cmd_report(a):
    rs = [json.loads(x) for x in open(a.inp)]
    killed = [r for r in rs if r["killed_by"]]
    unc = [r for r in rs if r.get("uncovered")]
    print("mutants run: {}  killed: {}  on lines no check executes: {}  survived: {}".format(len(rs), len(killed), len(unc), len(rs) - len(killed) - len(unc)))
    by = {}
    for r in killed:
        by[r["killed_by"]] = by.get(r["killed_by"], 0) + 1
    print("killed by:", dict(sorted(by.items())))
    for r in rs:
        if not r["killed_by"] and not r.get("uncovered"):
            print("SURVIVED {} {}:{} {} {!r} -> {!r}".format(r["id"], r["file"], r["line"], r["op"], r["old"], r["new"]))


def main():
    ap = argparse.ArgumentParser()
    sub = ap.add_subparsers(dest="cmd")
    g = sub.add_parser("gen")
    g.add_argument("out")
    g.add_argument("--files", default="")
    s = sub.add_parser("suite")
    s.add_argument("inp")
    s.add_argument("out")
    s.add_argument("--jobs", type=int, default=14)
    c = sub.add_parser("checks")
    c.add_argument("inp")
    c.add_argument("out")
    c.add_argument("--jobs", type=int, default=4)
    c.add_argument("--nproc", type=int, default=4)
    c.add_argument("--tier", default="quick")
    c.add_argument("--covdir", default="/var/tmp/cov")
    c.add_argument("--only-op", default="")
    c.add_argument("--only-file", default="")
    c.add_argument("--limit", type=int, default=0)
    c.add_argument("--stride", type=int, default=1)
    c.add_argument("--offset", type=int, default=0)
    r = sub.add_parser("report")
    r.add_argument("inp")
    a = ap.parse_args()
    {"gen": cmd_gen, "suite": cmd_suite, "checks": cmd_checks, "report": cmd_report}[a.cmd](a)


if __name__ == "__main__":
    main()
