"""
CoCo cassette (.cas) reference: a STRICT tape-stream parser and an independent writer
(DESIGN.md appendix B). Written from the format description, not from cassette.py.

file  := leader namefile-block leader data-block* eof-block
block := $55 $3C type len payload[len] cksum $55 ; cksum = (type + len + sum(payload)) & $FF
"""


class TapeError(Exception):
    pass


def parse(buf):
    """Strictly parse a whole tape image -> list of file dicts. Raises TapeError on any malformation."""
    buf = bytes(buf)
    n = len(buf)
    pos = 0
    blocks = []
    while True:
        # filler: only $00 and $55 may appear between blocks
        start = pos
        while pos < n and buf[pos] in (0x00, 0x55):
            pos += 1
        if pos >= n:
            break
        if buf[pos] != 0x3C:
            raise TapeError("byte ${:02X} at offset {} is neither filler nor a block sync".format(buf[pos], pos))
        if pos == start or buf[pos - 1] != 0x55:
            raise TapeError("sync $3C at offset {} is not preceded by a leader byte $55".format(pos))
        pos += 1
        if pos + 2 > n:
            raise TapeError("block header truncated at offset {}".format(pos))
        btype, blen = buf[pos], buf[pos + 1]
        pos += 2
        if pos + blen + 2 > n:
            raise TapeError("block at offset {} (type ${:02X}, len {}) runs past the end of the image".format(pos - 4, btype, blen))
        payload = buf[pos:pos + blen]
        pos += blen
        ck = buf[pos]
        pos += 1
        want = (btype + blen + sum(payload)) & 0xFF
        if ck != want:
            raise TapeError("checksum ${:02X} of block at offset {} should be ${:02X}".format(ck, pos - blen - 5, want))
        if buf[pos] != 0x55:
            raise TapeError("block at offset {} is not followed by the trailer $55".format(pos - blen - 5))
        pos += 1
        blocks.append((btype, payload))
    files = []
    cur = None
    for btype, payload in blocks:
        if btype == 0x00:
            if cur is not None:
                raise TapeError("name-file block inside an unfinished file")
            if len(payload) != 15:
                raise TapeError("name-file block has {} payload bytes, not 15".format(len(payload)))
            cur = {"name": bytes(payload[0:8]), "type": payload[8], "dtype": payload[9], "gap": payload[10],
                   "a1": (payload[11] << 8) | payload[12], "a2": (payload[13] << 8) | payload[14], "data": b"", "blocks": []}
        elif btype == 0x01:
            if cur is None:
                raise TapeError("data block outside a file")
            if not 1 <= len(payload) <= 255:
                raise TapeError("data block with {} payload bytes".format(len(payload)))
            cur["data"] += bytes(payload)
            cur["blocks"].append(len(payload))
        elif btype == 0xFF:
            if cur is None:
                raise TapeError("EOF block outside a file")
            if len(payload) != 0:
                raise TapeError("EOF block with payload")
            files.append(cur)
            cur = None
        else:
            raise TapeError("unknown block type ${:02X}".format(btype))
    if cur is not None:
        raise TapeError("last file has no EOF block")
    return files


def block(btype, payload):
    payload = bytes(payload)
    return bytes([0x55, 0x3C, btype, len(payload)]) + payload + bytes([(btype + len(payload) + sum(payload)) & 0xFF, 0x55])


def write(files, name_leader=128, data_leader=128, gap=None, blank=128, chunk=255, gapflag=None):
    """
    Independent writer of well-formed streams. files: dicts name(str), type, dtype, load, exec, data(bytes).
    name_leader/data_leader: number of $55 bytes before the name-file block / the first data block (>= 0; the block's own
    $55 counts as one more); gap: None or number of $55 leader bytes inserted between data blocks; blank: $00 bytes
    before each leader; chunk: data bytes per block.
    """
    out = bytearray()
    for f in files:
        nm = f["name"].encode("latin1")[:8].ljust(8, b" ")
        out += bytes(blank) + b"\x55" * name_leader
        flag = gapflag if gapflag is not None else (0xFF if gap is not None else 0x00)
        out += block(0x00, nm + bytes([f["type"], f["dtype"], flag, f["load"] >> 8, f["load"] & 0xFF,
                                       f["exec"] >> 8, f["exec"] & 0xFF]))
        out += bytes(blank) + b"\x55" * data_leader
        data = f["data"]
        first = True
        for i in range(0, len(data), chunk):
            if not first and gap is not None:
                out += bytes(blank) + b"\x55" * gap
            out += block(0x01, data[i:i + chunk])
            first = False
        if gap is not None:
            out += bytes(blank) + b"\x55" * gap
        out += block(0xFF, b"")
    return bytes(out)
