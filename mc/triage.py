"""python -m mc.triage dump.jsonl [dims-to-collapse...] : group a VERIF_DUMP by cell with some dimensions starred."""
import json, sys, collections
rows=[json.loads(l) for l in open(sys.argv[1])]
collapse=set(int(x) for x in sys.argv[2:])
g=collections.defaultdict(list)
for r in rows:
    if r.get("known"): continue
    cc=r["cell"].split("|")
    key="|".join("*" if i in collapse else c for i,c in enumerate(cc))
    g[(r["component"],key,r["symptom"])].append(r)
for (comp,key,sym),rs in sorted(g.items(), key=lambda kv:(kv[0][2],kv[0][1])):
    vals=collections.defaultdict(set)
    for r in rs:
        cc=r["cell"].split("|")
        for i in collapse:
            if i<len(cc): vals[i].add(cc[i])
    print("{:4d} {} :: {} :: {}".format(len(rs),comp,key,sym))
    for i in sorted(vals):
        v=sorted(vals[i]); print("       dim{} ({}): {}".format(i,len(v)," ".join(v)[:110]))
    r=rs[0]; print("       e.g. {} -> {}".format(json.dumps(r["case"].get("lines") if isinstance(r["case"],dict) else r["case"])[:200], str(r["observed"])[:160]))
print(len(g),"groups",len(rows),"signatures")
