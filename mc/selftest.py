"""
setup_cmd: verifies the reference models against themselves and against golden vectors, and prints the
diff between the two independent transcriptions of the opcode table. Exit 0 when sane.

  decoder o reference-encoder = identity over the whole intent space
  tape parser o tape writer   = identity over the writer's parameter space
  disk reader o disk writer   = identity, and fsck accepts every written image
"""
import itertools
import sys

from . import containers as C
from .ref import dskfs, tape
from .ref import m6809 as R


def ref_encode(mnem, it):
    """straightforward datasheet encoder used only to validate the decoder and classify()"""
    modes = R.MNEM[mnem]

    def opc(mode):
        o = modes[mode]
        return bytes([o >> 8, o & 0xFF]) if o > 0xFF else bytes([o])
    f = it["form"]
    v = it.get("value")
    if f == "inh":
        return opc("INH")
    if f == "imm":
        return opc("IMM8") + bytes([v & 0xFF]) if "IMM8" in modes else opc("IMM16") + (v & 0xFFFF).to_bytes(2, "big")
    if f == "dir":
        return opc("DIR") + bytes([v & 0xFF])
    if f in ("ext", "addr"):
        return opc("EXT") + (v & 0xFFFF).to_bytes(2, "big")
    if f == "extind":
        return opc("IDX") + b"\x9F" + (v & 0xFFFF).to_bytes(2, "big")
    if f == "pcr":
        ind = 0x10 if it.get("indirect") else 0
        s = v if v < 32768 else v - 65536
        if -128 <= s <= 127:
            return opc("IDX") + bytes([0x8C | ind, s & 0xFF])
        return opc("IDX") + bytes([0x8D | ind]) + (s & 0xFFFF).to_bytes(2, "big")
    if f == "idx":
        rr = "XYUS".index(it["reg"]) << 5
        ind = 0x10 if it.get("indirect") else 0
        sub = it["sub"]
        if sub == "zero":
            return opc("IDX") + bytes([0x84 | rr | ind])
        if sub == "acc":
            return opc("IDX") + bytes([{"A": 0x86, "B": 0x85, "D": 0x8B}[it["acc"]] | rr | ind])
        if sub in ("inc1", "inc2", "dec1", "dec2"):
            return opc("IDX") + bytes([{"inc1": 0x80, "inc2": 0x81, "dec1": 0x82, "dec2": 0x83}[sub] | rr | ind])
        s = v if v < 32768 else v - 65536
        if -16 <= s <= 15 and not ind:
            return opc("IDX") + bytes([rr | (s & 0x1F)])
        if -128 <= s <= 127:
            return opc("IDX") + bytes([0x88 | rr | ind, s & 0xFF])
        return opc("IDX") + bytes([0x89 | rr | ind]) + (s & 0xFFFF).to_bytes(2, "big")
    if f == "reglist":
        other = "S" if mnem in ("PSHU", "PULU") else "U"
        m = 0
        for r in it["regs"]:
            m |= 0x06 if r == "D" else 0x40 if r == other else R.LIST_BITS[r]
        return opc("REGLIST") + bytes([m])
    if f == "regpair":
        return opc("REGPAIR") + bytes([R.PAIR_CODE[it["regs"][0]] << 4 | R.PAIR_CODE[it["regs"][1]]])
    raise ValueError(f)


def check_decoder():
    from .checks import c01
    n = 0
    for mnem in R.ALL_MNEMONICS:
        modes = R.MNEM[mnem]
        if "REL8" in modes or "REL16" in modes:
            continue
        sks = []
        if "REGLIST" in modes:
            sks = [{"form": "reglist", "regs": regs} for m2, regs, _ in c01.gen_reglists() if m2 == mnem]
        elif "REGPAIR" in modes:
            sks = [{"form": "regpair", "regs": [a, b]} for a in R.PAIR_CODE for b in R.PAIR_CODE]
        else:
            sks = c01.row_forms(mnem)
        for sk in sks:
            vals = c01.V16 if c01.needs_value(sk) else [None]
            for v in vals:
                it = dict(sk)
                if v is not None:
                    it["value"] = v
                cls, acc = R.classify(mnem, it)
                if cls != "valid":
                    continue
                b = ref_encode(mnem, it)
                rec, why = R.check_statement_bytes(mnem, b, 0x1000)
                assert rec is not None, (mnem, it, b.hex(), why)
                msg = acc(rec)
                assert msg is None, (mnem, it, b.hex(), msg)
                # parse(render(intent)) = intent
                txt = R.render(it, R.spell(v, "dec") if v is not None else None)
                back = R.parse_operand(mnem, txt, {})
                assert back is not None and back["form"] == it["form"] and back.get("value") == it.get("value"), (mnem, it, txt, back)
                assert R.classify(mnem, back)[0] == "valid", (mnem, txt, back)
                n += 1
    # every opcode byte sequence that the table defines decodes, and undefined opcodes do not
    for op, (names, mode, base) in R.OPC.items():
        b = (bytes([op >> 8, op & 0xFF]) if op > 0xFF else bytes([op])) + (b"\x12\x00\x00" if mode == "REGPAIR" else b"\x84\x00\x00")
        rec = R.decode(b, 0)
        assert names == rec["mnems"], op
    for op in (0x01, 0x02, 0x05, 0x0B, 0x14, 0x15, 0x18, 0x1B, 0x38, 0x3E, 0x41, 0x87, 0xC7, 0xCD, 0x1000, 0x1130):
        try:
            R.decode((bytes([op >> 8, op & 0xFF]) if op > 0xFF else bytes([op])) + b"\x00\x00\x00", 0)
            raise AssertionError("undefined opcode {:X} decoded".format(op))
        except R.Illegal:
            pass
    for pb in (0x87, 0x8A, 0x8E, 0x8F, 0x90, 0x92, 0xBF):
        try:
            R.decode(bytes([0xA6, pb, 0, 0]), 0)
            raise AssertionError("illegal post-byte {:02X} decoded".format(pb))
        except R.Illegal:
            pass
    return n


GOLD = [("JSR", "BDA928"), ("LDX", "8E0E11"), ("LDA", "A680"), ("CMPA", "8100"), ("BEQ", "2712"), ("JSR", "BDA30A"),
        ("BRA", "20F5"), ("JSR", "AD9FA000"), ("BEQ", "27FA"), ("JMP", "7EA027"), ("LEAX", "308C10"), ("LDY", "10AE8DFF00"),
        ("PSHS", "3406"), ("TFR", "1F12"), ("LBRA", "16FFFD"), ("LBEQ", "1027FFFC"), ("SWI2", "103F"), ("CMPS", "118C1234"),
        ("STX", "AF8D0002"), ("STX", "AF9D0002"), ("STX", "AF8C01"), ("STA", "97FE"), ("NEG", "0010"), ("LDB", "E61E")]


def check_tape():
    n = 0
    files = [dict(name="A", type=2, dtype=0, load=0x1234, exec=0x5678, data=C.pattern(k, pat))
             for k, pat in ((0, "ramp"), (1, "55"), (255, "m00.p1"), (256, "3c"), (600, "mFF.p2"))]
    for nl, dl, gap, blank, chunk in itertools.product((0, 1, 128, 300), (0, 1, 128), (None, 0, 5), (0, 128), (1, 100, 255)):
        for lst in ([], files[:1], files[1:3], files):
            img = tape.write(lst, nl, dl, gap, blank, chunk)
            got = tape.parse(img)
            assert [(f["name"].rstrip().decode(), f["type"], f["dtype"], f["a1"], f["a2"], f["data"]) for f in got] == \
                   [(f["name"], f["type"], f["dtype"], f["load"], f["exec"], f["data"]) for f in lst]
            n += 1
    for bad in (b"\x55\x3c\x01\x02\xaa\xbb\x00\x55", b"\x55\x3c\xff\x00\xff\x55", b"\x00\x3c", b"\x55\x3c\x00\x0f" + bytes(15) + b"\x0f\x55"):
        try:
            tape.parse(bad)
            raise AssertionError("malformed tape accepted: " + bad.hex())
        except tape.TapeError:
            pass
    return n


def check_disk():
    n = 0
    for chain in ([0], [67], [33, 34], [34, 33], [5, 60, 2], [66, 0, 35]):
        for kind, slen in (("ml", 10), ("ml", 2304), ("ml", 2305), ("basic", 2303), ("ascii", 4608), ("ascii", 0), ("ml", 4700)):
            need = slen // 2304 + 1
            if need > len(chain):
                continue
            hdr = {"ml": 10, "basic": 3, "ascii": 0}[kind]
            if slen < hdr:
                continue
            data = C.pattern(slen - hdr, "ramp7")
            t, d = {"ml": (2, 0), "basic": (0, 0), "ascii": (0, 0xFF)}[kind]
            img = dskfs.write([{"name": "TST", "ext": "BIN", "type": t, "dtype": d, "stream": dskfs.make_stream(kind, data, 0x1000, 0x2000), "chain": chain}])
            assert dskfs.fsck(img) == [], (chain, kind, slen, dskfs.fsck(img))
            f = dskfs.read_files(img)[0]
            assert f["data"] == data and f["chain"] == chain[:need]
            if kind == "ml":
                assert (f["load"], f["exec"]) == (0x1000, 0x2000)
            n += 1
    blank = dskfs.write([])
    assert dskfs.fsck(blank) == [] and len(dskfs.free_granules(blank)) == 68 and len(dskfs.free_slots(blank)) == 72
    # fsck notices each kind of damage
    good = bytearray(dskfs.write([{"name": "A", "ext": "B", "type": 2, "dtype": 0, "stream": dskfs.make_stream("ml", bytes(3000), 0, 0), "chain": [1, 2]}]))
    for name, (off, val) in {"chain": (dskfs.FAT_OFF + 1, 70), "loop": (dskfs.FAT_OFF + 2, 1), "orphan": (dskfs.FAT_OFF + 9, 0xC1),
                             "dirty": (dskfs.gran_off(50) + 3, 0x00), "stream": (dskfs.gran_off(1), 0x55), "length": (dskfs.FAT_OFF + 2, 0xC1)}.items():
        b = bytearray(good)
        b[off] = val
        assert dskfs.fsck(bytes(b)), "fsck missed damage: " + name
    assert dskfs.gran_off(0) == 0 and dskfs.gran_off(33) == 33 * 2304 and dskfs.gran_off(34) == 36 * 2304 and dskfs.gran_off(67) == 69 * 2304
    return n


def table_diff():
    """the two transcriptions of the opcode table (ours from the datasheet, the repository's) side by side"""
    try:
        from . import common  # noqa: F401  (puts the repository on sys.path)
        from cocoasm.instruction import INSTRUCTIONS
    except Exception as e:        # the selftest must not depend on the repository being importable
        return "repository table not importable: {}".format(e)
    diffs = []
    colmap = {"inh": ["INH"], "imm": ["IMM8", "IMM16", "REGPAIR", "REGLIST"], "dir": ["DIR"], "ind": ["IDX"], "ext": ["EXT"], "rel": ["REL8", "REL16"]}
    for ins in INSTRUCTIONS:
        if ins.is_pseudo:
            continue
        ours = R.MNEM.get(ins.mnemonic)
        if ours is None:
            diffs.append("{}: not in the datasheet table".format(ins.mnemonic))
            continue
        for col, modes in colmap.items():
            theirs = getattr(ins.mode, col)
            mine = next((ours[m] for m in modes if m in ours), None)
            if theirs != mine:
                diffs.append("{}.{}: repository {} vs datasheet {}".format(ins.mnemonic, col, theirs, mine))
            elif mine is not None:
                size = getattr(ins.mode, col + "_sz")
                base = R.OPC[mine][2]
                if size != base:
                    diffs.append("{}.{}_sz: repository {} vs datasheet {}".format(ins.mnemonic, col, size, base))
    missing = sorted(set(R.MNEM) - {i.mnemonic for i in INSTRUCTIONS})
    if missing:
        diffs.append("mnemonics missing from the repository: " + " ".join(missing))
    return "opcode tables agree on every opcode, mode and length" if not diffs else "TABLE DIFFERENCES (informational):\n  " + "\n  ".join(diffs)


def main():
    assert len(R.OPC) == 268 and len(R.MNEM) == 139, (len(R.OPC), len(R.MNEM))
    for mnem, hx in GOLD:
        rec, why = R.check_statement_bytes(mnem, bytes.fromhex(hx), 0x0E00)
        assert rec is not None, (mnem, hx, why)
    n1 = check_decoder()
    n2 = check_tape()
    n3 = check_disk()
    print("selftest ok: {} golden vectors, {} opcodes, {} mnemonics; decoder/encoder/grammar agree on {} intents; "
          "tape writer/parser on {} streams; disk writer/reader/fsck on {} images".format(len(GOLD), len(R.OPC), len(R.MNEM), n1, n2, n3))
    print(table_diff())


if __name__ == "__main__":
    main()
    sys.exit(0)
