"""
Maintainer tool (never run by a check): python -m mc.mkfindings <dump.jsonl>...
Reads VERIF_DUMP files produced on the unchanged tree, assigns each violation signature to one of the
findings defined below (by root cause), writes the exact cell sets to findings/<id>.cells and prints the
`finding:` lines for KNOWN_FINDINGS.txt. Signatures that match no definition are listed as UNASSIGNED.
"""
import collections
import json
import os
import sys

from . import common

# id -> (property, component, text, predicate(cell, symptom) -> bool)
DEFS = collections.OrderedDict()


def define(fid, prop, component, text, pred):
    DEFS[fid] = (prop, component, text, pred)


def pos(cell):
    return cell.split("|")[0].split(".after[")[0].replace(".first", "").replace(".hexlike", "")


define("KF-C04-1", "C04", "expr",
       "FCB, FDB and RMB do not evaluate symbols or expressions (they are rejected with a diagnostic)",
       lambda c, s: pos(c) in ("fcb", "fdb", "rmb"))
define("KF-C04-2", "C04", "expr",
       "a symbol defined by EQU <expression> has no usable value (rejected; 0 when the expression involves a label; /0 unnoticed)",
       lambda c, s: pos(c) == "equ")
define("KF-C04-6", "C04", "expr",
       "%binary and 'char literals cannot be terms of a two-term expression (the expression is rejected as an invalid value)",
       lambda c, s: s == "valid expression rejected" and c.split("|")[2] != "single" and
       any(k in c for k in ("lit.bin8", "lit.bin16", "lit.chr")))
define("KF-C04-3", "C04", "expr",
       "an expression of constants takes direct mode from its terms: results above $FF are rejected for an unprefixed operand, negative "
       "results under < are encoded as their magnitude",
       lambda c, s: (pos(c) == "addr" and s == "valid expression rejected") or
                    (pos(c) == "dir" and s in ("value that does not fit the field accepted", "wrong value")))
define("KF-C04-4", "C04", "expr",
       "[label+n] and [label-n] are rejected (extended indirect does not accept an address expression)",
       lambda c, s: pos(c) == "extind" and s == "valid expression rejected")
define("KF-C04-5", "C04", "expr",
       "expressions over two labels, label*n, label/n, n-label and n/label are evaluated as label op n with the label taken from either side",
       lambda c, s: s == "wrong value" and pos(c) in ("addr", "ext", "imm16", "imm8", "idx", "idxind", "pcr", "dir", "extind", "bra"))
define("KF-C05-1", "C05", "data",
       "FCB/FDB value lists cannot contain symbols (EQU constants or labels): the list is rejected with a diagnostic",
       lambda c, s: s == "valid directive rejected" and c.split("|")[0] in ("FCB", "FDB") and ("equ" in c or "label" in c))


def main():
    sigs = {}
    for path in sys.argv[1:]:
        for ln in open(path):
            r = json.loads(ln)
            sigs[(r["component"], r["cell"], r["symptom"])] = r
    assigned = collections.defaultdict(lambda: collections.defaultdict(set))
    un = []
    for (comp, cell, sym), r in sorted(sigs.items()):
        for fid, (prop, component, text, pred) in DEFS.items():
            if comp == component and pred(cell, sym):
                assigned[fid][sym].add(cell)
                break
        else:
            un.append((comp, cell, sym, r))
    os.makedirs(os.path.join(common.VERIF, "findings"), exist_ok=True)
    for fid, bysym in assigned.items():
        prop, component, text, _ = DEFS[fid]
        # one line per (cell, symptom): a cell that fails in ANOTHER way than recorded is a different violation and is reported
        cells = sorted(c + "\t" + sym for sym, cs in bysym.items() for c in cs)
        rel = "findings/{}.cells".format(fid)
        with open(os.path.join(common.VERIF, rel), "w") as f:
            f.write("\n".join(cells) + "\n")
        match = {"component": component, "symptom": sorted(bysym), "cells_file": rel}
        print("finding: property={} id={} match={} :: {}".format(prop, fid, json.dumps(match), text))
    print("# {} signatures unassigned".format(len(un)))
    for comp, cell, sym, r in un[:40]:
        print("# UNASSIGNED {} | {} | {} | {}".format(comp, cell, sym, str(r.get("observed"))[:100]))


if __name__ == "__main__":
    main()
