"""
C01 - every instruction statement is encoded as the MC6809 instruction it names.

Product enumeration (depth-1 state space): mnemonic x operand form x register x indirection x value
x spelling x symbol route; each assembled by the real Program; the emitted bytes are decoded with the
independent datasheet decoder and the decoded MEANING is compared with the intent.
"""
import zlib

from .. import common
from ..ref import m6809 as R

PROP = "C01"
CHUNK = 400

V16 = [0, 1, 15, 16, 17, 126, 127, 128, 129, 254, 255, 256, 257, 32766, 32767, 32768, 32769, 65534, 65535,
       -1, -15, -16, -17, -127, -128, -129, -255, -256, -32767, -32768]
CHARS = [ord("A"), ord("z"), ord("0")]


def vclass(v):
    if v is None:
        return "-"
    if v < -128:
        return "neg16"
    if v < -16:
        return "neg8"
    if v < 0:
        return "neg5"
    if v == 0:
        return "zero"
    if v <= 15:
        return "pos4"
    if v <= 127:
        return "pos7"
    if v <= 255:
        return "pos8"
    if v <= 32767:
        return "pos15"
    return "pos16"


def row_forms(mnem):
    """All operand-form skeletons (without value) the datasheet row of `mnem` has."""
    modes = R.MNEM[mnem]
    out = []
    if "INH" in modes:
        out.append({"form": "inh"})
    if "IMM8" in modes or "IMM16" in modes:
        out.append({"form": "imm"})
    if "DIR" in modes or "EXT" in modes:
        out += [{"form": "addr"}, {"form": "dir"}, {"form": "ext"}]
    if "IDX" in modes:
        out.append({"form": "extind"})
        for r in "XYUS":
            for ind in (False, True):
                out.append({"form": "idx", "sub": "zero", "reg": r, "indirect": ind})
                out.append({"form": "idx", "sub": "off", "reg": r, "indirect": ind})
                for a in "ABD":
                    out.append({"form": "idx", "sub": "acc", "acc": a, "reg": r, "indirect": ind})
                out.append({"form": "idx", "sub": "inc2", "reg": r, "indirect": ind})
                out.append({"form": "idx", "sub": "dec2", "reg": r, "indirect": ind})
            out.append({"form": "idx", "sub": "inc1", "reg": r, "indirect": False})
            out.append({"form": "idx", "sub": "dec1", "reg": r, "indirect": False})
        for ind in (False, True):
            out.append({"form": "pcr", "indirect": ind})
    return out


VALUE_FORMS = ("imm", "addr", "dir", "ext", "extind", "pcr")


def needs_value(sk):
    return sk["form"] in VALUE_FORMS or (sk["form"] == "idx" and sk["sub"] == "off")


def form_tag(sk):
    f = sk["form"]
    if f == "idx":
        return "idx.{}{}|{}|{}".format(sk["sub"], "." + sk["acc"] if sk["sub"] == "acc" else "", sk["reg"],
                                       "ind" if sk.get("indirect") else "dir")
    if f == "pcr":
        return "pcr|-|{}".format("ind" if sk.get("indirect") else "dir")
    return "{}|-|-".format(f)


def routes_for(sk, v, tier):
    """(route, spelling) pairs applicable to this form and value."""
    out = []
    sp_quick = ["dec", "hex", "hex2", "hex4", "bin8", "bin16", "chr"]
    for sp in sp_quick:
        if R.spell(v, sp) is not None:
            out.append(("lit", sp))
    if v < 0 and sk["form"] != "pcr":
        # a negative constant reached through an EQU symbol (its value, not its width, is what the README defines)
        out.append(("equ_before", "dec"))
        out.append(("equ_after", "dec"))
    if v >= 0 and sk["form"] != "pcr":
        for sp in (["dec", "hex4", "hex2", "hex"] if tier == "quick" else sp_quick):
            if R.spell(v, sp) is not None:
                out.append(("equ_before", sp))
                out.append(("equ_after", sp))
        if v <= 65000:
            out.append(("label_before", "-"))
            out.append(("label_after", "-"))
            if v >= 1:
                out.append(("label_mid", "-"))
    return out


def gen_reglists():
    """every non-empty subset of the 8 pushable registers for each of PSHS/PSHU/PULS/PULU"""
    for mnem in ("PSHS", "PSHU", "PULS", "PULU"):
        other = "S" if mnem in ("PSHU", "PULU") else "U"
        names = ["CC", "A", "B", "DP", "X", "Y", other, "PC"]
        for mask in range(1, 256):
            regs = [names[i] for i in range(8) if mask >> i & 1]
            yield mnem, regs, "canon"
            if len(regs) > 1:
                yield mnem, list(reversed(regs)), "rev"
                yield mnem, regs[1:] + regs[:1], "rot"
            if mask & 0x06 == 0x06:
                dregs = ["D"] + [x for x in regs if x not in ("A", "B")]
                yield mnem, dregs, "D"
        # lists that name a register twice, directly or through D = A+B: the bits are a set, naming one twice changes nothing
        for regs in (["D", "A"], ["A", "D"], ["B", "D"], ["A", "B", "D"], ["D", "X", "B"], ["CC", "A", "B", "D", "DP", "X", "Y", other, "PC"]):
            yield mnem, regs, "overlap"
        for regs in (["A", "A"], ["X", "Y", "X"], ["PC", "PC"], ["D", "D"], ["CC", "CC", "CC"], [other, "A", other]):
            yield mnem, regs, "repeat"


def cases(tier, seed):
    mn = list(R.ALL_MNEMONICS)
    for mnem in mn:
        modes = R.MNEM[mnem]
        if "REL8" in modes or "REL16" in modes:
            continue        # branches: C03
        if "REGLIST" in modes or "REGPAIR" in modes:
            continue
        for sk in row_forms(mnem):
            if not needs_value(sk):
                yield {"mnem": mnem, "sk": sk, "v": None, "route": "lit", "sp": "-"}
                continue
            vals = list(V16)
            if sk["form"] in ("imm", "addr", "dir"):
                vals = vals + CHARS
            for v in vals:
                it = dict(sk, value=v)
                cls, acc = R.classify(mnem, it)
                if cls != "valid" and not (cls == "open" and callable(acc)):
                    continue
                for route, sp in routes_for(sk, v, tier):
                    yield {"mnem": mnem, "sk": sk, "v": v, "route": route, "sp": sp}
    for mnem, regs, order in gen_reglists():
        yield {"mnem": mnem, "sk": {"form": "reglist", "regs": regs, "order": order}, "v": None, "route": "lit", "sp": "-"}
    for mnem in ("TFR", "EXG"):
        for r1 in R.PAIR_CODE:
            for r2 in R.PAIR_CODE:
                if R.classify(mnem, {"form": "regpair", "regs": (r1, r2)})[0] == "valid":
                    yield {"mnem": mnem, "sk": {"form": "regpair", "regs": [r1, r2]}, "v": None, "route": "lit", "sp": "-"}
    if tier == "thorough":
        # complete value range for one row per row shape the assembler can distinguish
        reps = ["LDA", "LDX", "LDY", "STA", "STX", "STY", "NEG", "LEAX", "JMP", "JSR", "CMPD", "ADDD", "ANDCC", "CMPS"]
        for mnem in reps:
            for sk in row_forms(mnem):
                if not needs_value(sk):
                    continue
                if sk["form"] == "idx" and (sk["reg"] not in ("X", "S")):
                    continue
                for v in range(-32768, 65536):
                    it = dict(sk, value=v)
                    if R.classify(mnem, it)[0] != "valid":
                        continue
                    yield {"mnem": mnem, "sk": sk, "v": v, "route": "lit", "sp": "dec"}
                    if v >= 0:
                        yield {"mnem": mnem, "sk": sk, "v": v, "route": "lit", "sp": "hex"}


def build(case):
    """-> (lines, index of the statement under test, prefix bytes expected before it, value-holder)"""
    mnem, sk, v, route, sp = case["mnem"], case["sk"], case["v"], case["route"], case["sp"]
    if route == "lit":
        txt = R.render(dict(sk, value=v), R.spell(v, sp) if v is not None else None)
        return [" {} {}".format(mnem, txt)], 0, 0
    if route == "equ_before":
        txt = R.render(dict(sk, value=v), "EQ1")
        return ["EQ1 EQU {}".format(R.spell(v, sp)), " {} {}".format(mnem, txt)], 1, 0
    if route == "equ_after":
        txt = R.render(dict(sk, value=v), "EQ1")
        return [" {} {}".format(mnem, txt), "EQ1 EQU {}".format(R.spell(v, sp))], 0, 0
    if route == "label_before":
        txt = R.render(dict(sk, value=v), "LB1")
        return [" ORG {}".format(v), "LB1 NOP", " {} {}".format(mnem, txt)], 2, 1
    if route == "label_after":
        txt = R.render(dict(sk, value=v), "LA1")
        return [" ORG {}".format(max(v - 3, 0)), " {} {}".format(mnem, txt), "LA1 NOP"], 1, 0
    if route == "label_mid":
        # the label follows a symbol definition written between the statements of the program (after the ORG)
        txt = R.render(dict(sk, value=v), "LM1")
        return [" ORG {}".format(v - 1), " NOP", "EQ9 EQU 5", "LM1 NOP", " {} {}".format(mnem, txt)], 4, 2
    raise ValueError(route)


def cell_of(case):
    return "{}|{}|{}|{}|{}".format(case["mnem"], form_tag(case["sk"]), vclass(case["v"]), case["sp"], case["route"])


def check_case(case):
    mnem, sk, v, route = case["mnem"], case["sk"], case["v"], case["route"]
    lines, idx, prefix = build(case)
    out = common.assemble_confirm(lines)
    cell = cell_of(case)
    res = {"state": "", "outcome": out["kind"], "nontrivial": False}
    viol = []

    def bad(symptom, expected, observed):
        viol.append({"component": "encode", "cell": cell, "symptom": symptom, "expected": expected,
                     "observed": observed, "input": dict(case, lines=lines)})

    want_txt = "accepted; decodes to {} {}".format(mnem, {k: sk[k] for k in sk} | ({"value": v} if v is not None else {}))
    if sk.get("order") == "repeat":
        if out["kind"] == "DIAG":
            res["state"] = "DIAG:" + cell          # refusing a repeated register is as good as ignoring the repetition
            return res
        sk = dict(sk, regs=list(dict.fromkeys(sk["regs"])))
    if out["kind"] == "DIAG" and v is not None and route in ("lit", "equ_before", "equ_after") and R.classify(mnem, dict(sk, value=v))[0] == "open":
        res["state"] = "DIAG-open:" + cell          # a form the grammar leaves open (<-n): refusing it is fine, mis-encoding it is not
        return res
    if out["kind"] != "OK":
        if out["kind"] == "DIAG":
            bad("rejected", want_txt, common.outcome_brief(out))
        elif out["kind"] == "INTERNAL":
            bad("internal {}@{}".format(out["exc"], out["where"]), want_txt, common.outcome_brief(out))
        else:
            bad("hang", want_txt, "HANG")
        res["state"] = "{}:{}".format(out["kind"], cell)
        res["viol"] = viol
        return res
    image = out["image"]
    value = v
    if route == "label_before":
        value = out["symbols"].get("LB1")
    elif route == "label_after":
        value = out["symbols"].get("LA1")
    elif route == "label_mid":
        value = out["symbols"].get("LM1")
    if route in ("label_before", "label_after", "label_mid") and value is None:
        bad("label missing from symbol table", "symbol listed", str(out["symbols"]))
        res["viol"] = viol
        return res
    if route in ("label_before", "label_mid"):
        # where the label is does not depend on the statement under test: the ORG and the one-byte statements before it fix it
        if value != v:
            bad("label has the wrong value", "{} = ${:04X} (ORG plus the bytes before it)".format("LB1" if route == "label_before" else "LM1", v),
                "${:04X}".format(value))
            res["viol"] = viol
            return res
    elif route == "label_after" and value != max(v - 3, 0) + len(image) - 1:
        bad("label has the wrong value", "LA1 = ORG + size of the statement before it = ${:04X}".format(max(v - 3, 0) + len(image) - 1),
            "${:04X}".format(value))
        res["viol"] = viol
        return res
    intent = dict(sk)
    if v is not None:
        intent["value"] = value
    cls, acceptor = R.classify(mnem, intent)
    if cls != "valid" and not (cls == "open" and callable(acceptor)):
        # the label landed on a value that makes the statement not core-valid (cannot happen for lit/equ)
        res["state"] = "skip:" + cell
        return res
    body = image[prefix:]
    if route == "label_after":
        body = image[:-1] if len(image) else image
    pc = out["addrs"][idx] if out["addrs"][idx] is not None else 0
    rec, why = R.check_statement_bytes(mnem, body, pc)
    if rec is None:
        sym = why.split(":")[0] if why.startswith("undecodable") else ("trailing bytes" if "trailing" in why else "wrong mnemonic")
        bad(sym, want_txt, "{} <- bytes {}".format(why, body.hex().upper()))
    else:
        msg = acceptor(rec)
        if msg is not None:
            # normalised symptom: which aspect differs
            k = rec.get("key")
            if msg.startswith("forced"):
                sym = "prefix ignored: " + rec["mode"]
            elif sk["form"] in ("addr", "dir", "ext") and rec["mode"] in ("DIR", "EXT"):
                sym = "wrong address"
            elif k and k[0] == "imm":
                sym = "wrong immediate (width {})".format(k[1])
            elif k and k[0] == "idx":
                sym = "wrong indexed meaning: got " + ".".join(str(x) for x in k[1:2])
            else:
                sym = "wrong meaning"
            bad(sym, want_txt, "{} <- bytes {}".format(msg, body.hex().upper()))
        res["state"] = "{}:{}".format(mnem, rec.get("key"))
        res["nontrivial"] = True
    if viol:
        res["viol"] = viol
    if zlib.crc32(repr(sorted(case.items(), key=str)).encode()) % 20011 == 0:
        res["sample"] = {"lines": lines, "image": image.hex().upper(), "decoded": str(rec.get("key")) if rec else None}
    return res


def describe(tier):
    return {
        "alphabet": "all non-branch mnemonics of the datasheet table x every operand form of their row "
                    "(inh, #imm, addr, <addr, >addr, [addr], indexed zero/const/A,B,D/auto inc-dec x X,Y,U,S x direct/indirect, "
                    "n,PCR, [n,PCR]) x boundary value set V16 (+3 character codes) x spellings "
                    "{dec,$min,$2,$4,%8,%16,'c} x routes {literal, EQU before/after use, label before/after use, label after an EQU written between the statements}; "
                    "all 255 register masks x 4 push/pull mnemonics x up to 4 orders, plus lists naming a register twice (D with A/B, plain repeats); all legal TFR/EXG pairs"
                    + ("; plus the complete range -32768..65535 for every value-bearing form of 14 representative rows" if tier == "thorough" else ""),
        "bound": "single statements (depth 1) in 1-3 line programs",
        "oracle": "core-valid statement must be accepted; datasheet decode of the emitted bytes = one instruction of that mnemonic "
                  "whose meaning (mode, register, indirection, value mod field width) equals the intent; direct==extended under DP=0 "
                  "unless < or > is written; 5/8/16-bit offsets interchangeable",
        "rule": "complete product enumeration; a state is (mnemonic, decoded semantic record); non-trivial = accepted and decoded",
        "assumptions": ["DP assumed 0 (SETDP not explored)", "datasheet opcode map in ref_data/mc6809_opcodes.tsv is correct",
                        "EQU symbols are not used in n,PCR operands (offset or target is undocumented)"],
    }
