"""
C19 - INCLUDE is textual inclusion.

For every base program, every way of cutting it at statement boundaries into an including file and 1..3
included files (one slice, two disjoint slices, slices nested to depth 3) is written to a private
directory and assembled through Program.process (and the command line for the larger programs); image,
listing addresses and symbol table must equal those of the spliced single file. Missing files and
inclusion cycles must be diagnosed.
"""
import itertools
import os
import shutil
import tempfile
import zlib

from .. import common, cli
from . import c02, c13

PROP = "C19"
CHUNK = 40

XREF = ["        ORG $1000", "FIRST   LDX #LAST", "        BRA MIDDLE", "        LEAX LAST,PCR", "VAL     EQU 7", "MIDDLE  LDA #VAL",
        "        BNE FIRST", "        LDY [FIRST,PCR]", "        JSR LAST+1", "LAST    RTS", "        FDB $1234"]
# FCC strings are taken verbatim from the line: a TAB, a semicolon, runs of spaces and an unusual delimiter inside them
STRINGS = ["        ORG $3000", "BEGIN   LDX #TEXT2", 'TEXT1   FCC "A\tB"', "TEXT2   FCC /semi;colon and  two spaces/", "TEXT3   FCC #hash#",
           "        LEAY TEXT1,PCR", "        BNE BEGIN", "AFTER   JMP TEXT3", "        FCB 1,2,3"]
# every operand position with a label expression label+n / label-n / n+label
EXPRS = ["        ORG $2800", "START   LDA TABLE+2,X", "        LDU [TABLE-2,Y]", "        LDX #TABLE+1", "        STA TABLE-1", "        JSR [TABLE+2]",
         "        LEAX TABLE+2,PCR", "        LDA [TABLE-1,PCR]", "        BNE START+2", "        LDD 2+TABLE,S", "        JMP START-1", "TABLE   FCB 1,2,3,4",
         "        LDY #START+$10", "        LBRA TABLE+1"]
BIG = {"readme": [ln for ln in c13.README if ln.strip() and not ln.strip().startswith(";")], "xref": XREF,
       "pcr": c13.PCRS, "strings": STRINGS, "exprs": EXPRS}


def base_programs(tier):
    for name, lines in BIG.items():
        yield name, lines
    depth3 = tier == "thorough"
    core = c02.CORE
    for a in core:
        for b in core:
            for case in c02.programs_for((a, b), ("all",)):
                yield "c02:" + ",".join(case["tags"]) + ":" + ",".join(str(x) for x in case["bind"]), c02.build(case)[0]
    sub = core if depth3 else ["inh1", "ext.lbl", "pcr.lbl", "bra", "equ8", "org0E00", "fcc11", "idx.off8n"]
    for tup in itertools.product(sub, repeat=3):
        for case in itertools.islice(c02.programs_for(tup, ("all",)), 0, None, 1 if depth3 else 3):
            yield "c02:" + ",".join(case["tags"]) + ":" + ",".join(str(x) for x in case["bind"]), c02.build(case)[0]


def plans(n, deep):
    """cut plans for a program of n statements: lists of nested slices. A plan is a tree: [(i, j, [children])]"""
    # one slice
    for i in range(n):
        for j in range(i + 1, n + 1):
            yield [(i, j, [])]
    if n >= 2:
        # two disjoint slices
        for i in range(n):
            for j in range(i + 1, n + 1):
                for k in range(j, n):
                    for l in range(k + 1, n + 1):
                        if not deep and (l - k > 2 or j - i > 2):
                            continue
                        yield [(i, j, []), (k, l, [])]
    # nested: a slice inside a slice (depth 2) and inside that (depth 3)
    for i in range(n):
        for j in range(i + 1, n + 1):
            for k in range(i, j):
                for l in range(k + 1, j + 1):
                    if (k, l) == (i, j) and not deep:
                        continue
                    yield [(i, j, [(k, l, [])])]
                    if deep:
                        for p in range(k, l):
                            for q in range(p + 1, l + 1):
                                yield [(i, j, [(k, l, [(p, q, [])])])]
    if n >= 3:
        yield [(0, 1, []), (1, 2, []), (2, 3, [])]
        yield [(0, n, [(0, n, [(0, n, [])])])]


def cases(tier, seed):
    for name, lines in base_programs(tier):
        n = len(lines)
        deep = n <= 2 or (tier == "thorough" and n <= 11)
        seen = set()
        for plan in plans(n, deep):
            key = repr(plan)
            if key in seen:
                continue
            seen.add(key)
            if n > 11 and len(plan) == 1 and not plan[0][2] and tier != "thorough" and (plan[0][1] - plan[0][0]) % 3 == 2:
                continue
            yield {"k": "split", "base": name, "lines": lines, "plan": plan}
            if name in BIG and len(plan) <= 2 and zlib.crc32(key.encode()) % 4 == 0:
                # the same cut with the included files in a sub-directory (paths stay relative to the working directory)
                yield {"k": "split", "base": name, "lines": lines, "plan": plan, "subdir": True}
            if name in BIG and len(plan) <= 2 and zlib.crc32(key.encode()) % 16 == 1:
                # other legal spellings of the path: ./name, a parent step (sub/../name, sub/dir.1/../dir.1/name), an absolute path
                for style in ("dot", "dotdot", "dotdot.deep", "abs"):
                    yield {"k": "split", "base": name, "lines": lines, "plan": plan, "subdir": style}
            if len(plan) <= 2 and (name in BIG and zlib.crc32(key.encode()) % 4 == 1 or (n <= 2 and zlib.crc32(key.encode()) % 4 == 0)):
                # included files whose last line has no line end (the file simply stops after the last character)
                yield {"k": "split", "base": name, "lines": lines, "plan": plan, "noeol": True}
            if name in BIG and len(plan) <= 2 and (zlib.crc32(key.encode()) % 8 == 3 or (_depth(plan) >= 2 and zlib.crc32(key.encode()) % 2 == 0)):
                # the mnemonic in another letter case (mnemonics are case-insensitive): everywhere, or only inside the included files
                for kw in ("lower", "mixed", "nested.lower", "nested.mixed"):
                    yield {"k": "split", "base": name, "lines": lines, "plan": plan, "kw": kw}
    # included files that contribute no statement at all (empty, or only comments and blank lines), alone, directly before another
    # INCLUDE, directly after one, and nested
    for name, lines in BIG.items():
        n = len(lines)
        for p in range(0, n + 1):
            yield {"k": "split", "base": name, "lines": lines, "plan": [(p, p, [])], "banner": p % 2 == 0}
            for q in range(p + 1, min(n, p + 3) + 1):
                yield {"k": "split", "base": name, "lines": lines, "plan": [(p, p, []), (p, q, [])], "banner": q % 2 == 0}
                yield {"k": "split", "base": name, "lines": lines, "plan": [(p, q, []), (q, q, [])], "banner": q % 2 == 1}
                yield {"k": "split", "base": name, "lines": lines, "plan": [(p, q, [(p, p, []), (p, q, [])])], "banner": True}
    # the same (label-free) file included more than once: twice from the main file, and once directly + once through another file
    for name, lines in list(BIG.items()) + [("frag", ["START NOP", " LDA #1", " STA ,X+", "MID LEAX END1,PCR", " BNE START", " LDB #2", "END1 RTS", " JMP MID"])]:
        n = len(lines)
        for i in range(n):
            for j in range(i + 1, min(n, i + 3) + 1):
                if any(c13.split_fields(l) and c13.split_fields(l)[0] for l in lines[i:j]):
                    continue        # a labelled slice cannot legally appear twice
                for k in range(j, n + 1):
                    for nested in (False, True):
                        yield {"k": "twice", "base": name, "lines": lines, "slice": [i, j], "again": k, "nested": nested}
    for g in ERR_GRAPHS:
        yield {"k": "error", "graph": g}
    for g in OK_GRAPHS:
        yield {"k": "okgraph", "graph": g}


def materialise(lines, plan, subdir=False, kw=None):
    """-> (main lines, {filename: lines}) for a plan"""
    files = {}
    counter = [0]
    prefix = {False: "", None: "", True: "sub/dir.1/", "dot": "./", "dotdot": "sub/../", "dotdot.deep": "sub/dir.1/../dir.1/",
              "abs": os.getcwd() + "/"}[subdir]

    def build(lo, hi, children, depth=0):
        out = []
        pos = lo
        for (i, j, sub) in children:
            out += lines[pos:i]
            counter[0] += 1
            fn = "{}inc{}.asm".format(prefix, counter[0])
            files[fn] = build(i, j, sub, depth + 1)
            word = "INCLUDE" if not kw or (kw.startswith("nested.") and depth == 0) else ("include" if kw.endswith("lower") else "Include")
            out.append("        {} {}".format(word, fn))
            pos = j
        out += lines[pos:hi]
        return out
    main = build(0, len(lines), plan)
    return main, files


# graphs that are NOT cycles although a name recurs: two different files with one base name, in different directories
OK_GRAPHS = {
    "samebase.nested": ({"main.asm": [" ORG $1000", "M1 NOP", " INCLUDE video/defs.asm", " JMP V1"], "video/defs.asm": ["V1 LDA #1", " INCLUDE defs.asm", " RTS"],
                         "defs.asm": ["D1 LDB #2", " BNE V1"]},
                        [" ORG $1000", "M1 NOP", "V1 LDA #1", "D1 LDB #2", " BNE V1", " RTS", " JMP V1"]),
    "samebase.siblings": ({"main.asm": [" INCLUDE a/part.asm", " INCLUDE b/part.asm", " INCLUDE part.asm"], "a/part.asm": ["A1 NOP"], "b/part.asm": ["B1 CLRA"],
                           "part.asm": ["C1 RTS", " JMP A1"]},
                          ["A1 NOP", "B1 CLRA", "C1 RTS", " JMP A1"]),
    "case.only": ({"main.asm": [" ORG $2000", " INCLUDE IO.ASM", " RTS"], "IO.ASM": ["UP1 NOP", " INCLUDE io.asm"], "io.asm": ["LO1 CLRA", " BNE UP1"]},
                  [" ORG $2000", "UP1 NOP", "LO1 CLRA", " BNE UP1", " RTS"]),
    "samebase.deep": ({"main.asm": [" INCLUDE x/inc.asm"], "x/inc.asm": [" NOP", " INCLUDE x/y/inc.asm"], "x/y/inc.asm": ["Y1 RTS", " INCLUDE inc.asm"], "inc.asm": [" BRA Y1"]},
                      [" NOP", "Y1 RTS", " BRA Y1"]),
    # a parent step through a symbolic link: lnk/.. is the parent of the directory the link points to, not the working directory
    "symlink.parent": ({"main.asm": [" ORG $3000", "S1 LDA #$11", " INCLUDE lnk/../defs.asm", " BRA S1"], "real/defs.asm": ["R1 FCB 1,2,3", " LEAX R1,PCR"],
                        "defs.asm": ["R1 FDB $AAAA,$BBBB", " NOP"], "real/sub/keep.asm": [" NOP"]},
                       [" ORG $3000", "S1 LDA #$11", "R1 FCB 1,2,3", " LEAX R1,PCR", " BRA S1"]),
    "symlink.file": ({"main.asm": [" INCLUDE alias.asm", " JMP T1"], "real/target.asm": ["T1 CLRA", " RTS"]}, ["T1 CLRA", " RTS", " JMP T1"]),
}
OK_LINKS = {"symlink.parent": {"lnk": "real/sub"}, "symlink.file": {"alias.asm": "real/target.asm"}}
ERR_GRAPHS = {
    "self": {"main.asm": [" NOP", " INCLUDE main.asm"]},
    "cycle2": {"main.asm": [" INCLUDE a.asm"], "a.asm": [" NOP", " INCLUDE main.asm"]},
    "cycle3": {"main.asm": [" INCLUDE a.asm"], "a.asm": [" INCLUDE b.asm"], "b.asm": ["X1 NOP", " INCLUDE a.asm"]},
    "missing": {"main.asm": [" NOP", " INCLUDE nothere.asm"]},
    "missing.nested": {"main.asm": [" INCLUDE a.asm"], "a.asm": [" INCLUDE nothere.asm"]},
    "dir": {"main.asm": [" INCLUDE ."]},
    # a path through a directory that does not exist names no file, whatever follows the parent step
    "missing.parent": {"main.asm": [" NOP", " INCLUDE nosuch/../a.asm"], "a.asm": ["A1 RTS"]},
    "missing.parent.nested": {"main.asm": [" INCLUDE a.asm"], "a.asm": [" INCLUDE sub/nosuch/../../b.asm"], "b.asm": ["B1 RTS"], "sub/keep.asm": [" NOP"]},
    "file.as.dir": {"main.asm": [" INCLUDE a.asm/../b.asm"], "a.asm": ["A1 RTS"], "b.asm": ["B1 RTS"]},
    # cycles closed through a symbolic link: to the file itself, and to the directory the files live in
    "cycle.link.file": {"main.asm": [" INCLUDE real.asm"], "real.asm": ["R1 NOP", " INCLUDE alias.asm"], "alias.asm": ["LINK:real.asm"]},
    "cycle.link.dir": {"main.asm": [" INCLUDE lib/a.asm"], "lib/a.asm": ["A1 NOP", " INCLUDE inc/b.asm"], "lib/b.asm": ["B1 NOP", " INCLUDE inc/a.asm"],
                       "inc": ["LINK:lib"]},
    "self.link": {"main.asm": [" NOP", " INCLUDE me.asm"], "me.asm": ["LINK:main.asm"]},
}


def check_case(case):
    res = {"nontrivial": True, "outcome": "ok"}
    viol = []
    def bad(cell, symptom, expected, observed):
        viol.append({"component": "include", "cell": cell, "symptom": symptom, "expected": str(expected)[:160], "observed": str(observed)[:160],
                     "input": case})

    with common.scratch_dir():
        if case["k"] == "error":
            files = ERR_GRAPHS[case["graph"]]
            for fn, content in files.items():
                if os.path.dirname(fn):
                    os.makedirs(os.path.dirname(fn), exist_ok=True)
                if content and content[0].startswith("LINK:"):
                    os.symlink(content[0][5:], fn)
                else:
                    open(fn, "w").write("".join(ln + "\n" for ln in content))
            out = common.assemble_confirm(files["main.asm"], budget=10)
            cell = "error|" + case["graph"]
            if out["kind"] != "DIAG":
                bad(cell, "not reported as a diagnostic", "ParseError/TranslationError", common.outcome_brief(out))
            status, created, stdout = c13.run_cli([ln + "\n" for ln in files["main.asm"]], files)
            if created or status == 0 or isinstance(status, str):
                bad(cell, "command line: not a clean failure", "exit != 0, no file", "status={} files={}".format(status, created))
            res["state"] = cell + ":" + out["kind"]
            res["transitions"] = 2
        elif case["k"] == "okgraph":
            files, flat = OK_GRAPHS[case["graph"]]
            for fn, content in files.items():
                if os.path.dirname(fn):
                    os.makedirs(os.path.dirname(fn), exist_ok=True)
                open(fn, "w").write("".join(ln + "\n" for ln in content))
            for link, target in OK_LINKS.get(case["graph"], {}).items():
                os.symlink(os.path.abspath(target), link)
            cell = "graph|" + case["graph"]
            ref = common.assemble_confirm(flat)
            got = common.assemble_confirm(files["main.asm"], budget=10)
            if ref["kind"] != got["kind"]:
                bad(cell, "outcome differs from the spliced file", common.outcome_brief(ref)[:80], common.outcome_brief(got)[:80])
            elif ref["kind"] == "OK" and (got["image"] != ref["image"] or got["symbols"] != ref["symbols"]):
                bad(cell, "image differs from the spliced file", ref["image"].hex()[:60], got["image"].hex()[:60])
            res["state"] = cell + ":" + ref["kind"]
            res["nontrivial"] = ref["kind"] == "OK"
            res["transitions"] = 2
        elif case["k"] == "twice":
            lines = case["lines"]
            i, j = case["slice"]
            k = case["again"]
            frag = lines[i:j]
            flat = lines[:k] + frag + lines[k:]
            inc = "        INCLUDE frag.asm"
            if case["nested"]:
                main = lines[:i] + [inc] + lines[j:k] + ["        INCLUDE outer.asm"] + lines[k:]
                files = {"frag.asm": frag, "outer.asm": [inc]}
            else:
                main = lines[:i] + [inc] + lines[j:k] + [inc] + lines[k:]
                files = {"frag.asm": frag}
            cell = "twice|{}|{}".format(case["base"], "nested" if case["nested"] else "flat")
            ref = common.assemble_confirm(flat)
            for fn, content in files.items():
                if not content and case.get("banner"):
                    content = ["; a file of comments only", "", "        ; nothing else"]
                text = "".join(ln + "\n" for ln in content)
                open(fn, "w").write(text[:-1] if case.get("noeol") and text else text)
            got = common.assemble_confirm(main)
            if ref["kind"] != got["kind"]:
                if ref["kind"] in ("OK", "DIAG"):
                    bad(cell, "outcome differs from the spliced file", common.outcome_brief(ref)[:80], common.outcome_brief(got)[:80])
            elif ref["kind"] == "OK" and (got["image"], got["addrs"], got["symbols"]) != (ref["image"], ref["addrs"], ref["symbols"]):
                what = "image" if got["image"] != ref["image"] else "listing addresses" if got["addrs"] != ref["addrs"] else "symbol table"
                bad(cell, what + " differs from the spliced file", ref["image"].hex()[:60], got["image"].hex()[:60])
            res["state"] = "{}:{}:{}".format(cell, ref["kind"], zlib.crc32(ref["image"]) if ref["kind"] == "OK" else "")
            res["nontrivial"] = ref["kind"] == "OK"
            res["transitions"] = 2
        else:
            lines = case["lines"]
            main, files = materialise(lines, case["plan"], case.get("subdir", False), case.get("kw"))
            depth = _depth(case["plan"])
            sd = case.get("subdir")
            cell = "split|{}|files={}|depth={}{}".format(case["base"].split(":")[0], len(files), depth, "" if not sd else "|subdir" if sd is True else "|path." + sd) + \
                   ("|kw." + case["kw"] if case.get("kw") else "") + ("|noeol" if case.get("noeol") else "")
            if sd:
                os.makedirs("sub/dir.1")
                files = {os.path.normpath(fn): content for fn, content in files.items()}
            ref = common.assemble_confirm(lines)
            for fn, content in files.items():
                if not content and case.get("banner"):
                    content = ["; a file of comments only", "", "        ; nothing else"]
                text = "".join(ln + "\n" for ln in content)
                open(fn, "w").write(text[:-1] if case.get("noeol") and text else text)
            got = common.assemble_confirm(main)
            if ref["kind"] != got["kind"]:
                if ref["kind"] in ("OK", "DIAG"):
                    bad(cell, "outcome differs from the spliced file", common.outcome_brief(ref)[:80], common.outcome_brief(got)[:80])
            elif ref["kind"] == "OK":
                if got["image"] != ref["image"]:
                    bad(cell, "image differs from the spliced file", ref["image"].hex()[:60], got["image"].hex()[:60])
                elif got["addrs"] != ref["addrs"]:
                    bad(cell, "listing addresses differ from the spliced file", ref["addrs"][:12], got["addrs"][:12])
                elif got["symbols"] != ref["symbols"]:
                    bad(cell, "symbol table differs from the spliced file", ref["symbols"], got["symbols"])
                elif got["origin"] != ref["origin"]:
                    bad(cell, "origin differs from the spliced file", ref["origin"], got["origin"])
                elif case["base"] in BIG and zlib.crc32(repr(case["plan"]).encode()) % 5 == 0:
                    open("main.asm", "w").write("".join(ln + "\n" for ln in main))
                    status, out = cli.assembler("main.asm", to_bin="o.bin", symbols=True, print_=True)
                    b = open("o.bin", "rb").read() if os.path.exists("o.bin") else None
                    res["transitions"] = 3
                    if status != 0 or b != ref["image"]:
                        bad(cell, "command line output differs from the spliced file", ref["image"].hex()[:40], "{} {}".format(status, (b or b"").hex()[:40]))
            elif ref["kind"] == "DIAG" and (ref["exc"], ref["msg"]) != (got["exc"], got["msg"]):
                bad(cell, "diagnostic differs from the spliced file", ref["msg"][:80], got["msg"][:80])
            res["state"] = "{}:{}:{}".format(cell, ref["kind"], zlib.crc32(ref["image"]) if ref["kind"] == "OK" else ref.get("msg", "")[:30])
            res["nontrivial"] = ref["kind"] == "OK"
    if viol:
        res["viol"] = viol[:2]
        res["outcome"] = "violation"
    if case["k"] == "okgraph":
        res["sample"] = {"case": case}
    elif case["k"] == "error" or zlib.crc32(repr(case).encode()) % 3001 == 0:
        res["sample"] = {"case": case if case["k"] == "error" else {"base": case["base"], "plan": case.get("plan", case.get("slice"))}}
    return res


def _depth(plan):
    return 0 if not plan else 1 + max(_depth(p[2]) for p in plan)


def describe(tier):
    return {
        "alphabet": "base programs: README example, a cross-referencing 11-line program (forward/backward labels, branch, PCR, [label,PCR], label+1, "
                    "EQU), the interacting-PCR program, and every 2-statement (" + ("and every 3-statement" if tier == "thorough" else "and a 8-template slice of 3-statement") +
                    ") sequence of C02's core alphabet with every label binding",
        "bound": "every single contiguous slice moved to an included file; every pair of disjoint slices; every slice nested in a slice (and a third "
                 "level for programs of <= 4 lines" + (" / <= 11 lines" if tier == "thorough" else "") + "); three consecutive includes; a 3-level wrap of the whole "
                 "program; include depth 3; included files without any statement (empty / comments only) alone, next to another INCLUDE and nested; included files reached through sub/dir.1/name, ./name, sub/../name, sub/dir.1/../dir.1/name and an absolute path; 4 graphs in which different files share a base name or differ only in letter case (nested, siblings, three levels); 6 error graphs (self, 2- and 3-cycles, missing, nested missing, directory)",
        "oracle": "Program.process on the including file (cwd = private directory) gives the same image, listing addresses, symbol table and origin "
                  "as the spliced single file (same diagnostic if the base is rejected); a sample of the larger programs also through assembler.py "
                  "--print --symbols --to_bin; missing file / cycle => diagnostic, exit != 0, no output file",
        "rule": "state = (base kind, number of files, depth, outcome); non-trivial = base accepted",
        "assumptions": ["include paths are relative to the working directory"],
    }
