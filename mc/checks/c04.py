"""
C04 - symbols and two-term expressions evaluate to their arithmetic value everywhere.

Product enumeration: operand position x {term, term op term} x term kinds (literal in each spelling, EQU
constant in each spelling defined before/after use, label before use, label after use). Oracle: plain
integer arithmetic; the decoded operand field must equal the result modulo the field width.
"""
import itertools
import zlib

from .. import common
from ..ref import m6809 as R

PROP = "C04"
CHUNK = 300

VALS = [0, 1, 5, 200, 255, 256, 4660, 32768, 65535]
POSITIONS = ["imm8", "imm16", "addr", "dir", "ext", "extind", "idx", "idxind", "pcr", "bra", "equ", "fcb", "fdb", "rmb"]
WIDTH = {"imm8": 8, "imm16": 16, "addr": 16, "dir": 8, "ext": 16, "extind": 16, "idx": 16, "idxind": 16, "pcr": 16, "bra": 16,
         "equ": 16, "fcb": 8, "fdb": 16, "rmb": 16}
STMT = {"imm8": ("LDA", "#{e}"), "imm16": ("LDX", "#{e}"), "addr": ("LDB", "{e}"), "dir": ("LDB", "<{e}"), "ext": ("LDB", ">{e}"),
        "extind": ("JMP", "[{e}]"), "idx": ("LDA", "{e},Y"), "idxind": ("LDA", "[{e},U]"), "pcr": ("LEAX", "{e},PCR"),
        "bra": ("LBRA", "{e}"), "equ": ("EQU", "{e}"), "fcb": ("FCB", "{e}"), "fdb": ("FDB", "{e}"), "rmb": ("RMB", "{e}")}
OPS = "+-*/"


def all_terms(tier):
    out = []
    sps = ["dec", "hex", "hex4", "hex2", "bin8", "bin16", "chr"] if tier == "thorough" else ["dec", "hex", "hex4", "hex2"]
    vals = VALS + ([65] if True else [])
    for v in vals:
        for sp in sps:
            if R.spell(v, sp) is not None:
                out.append(("lit", v, sp, None))
    esp = ["dec", "hex", "hex4", "hex2", "bin8"] if tier == "thorough" else ["dec", "hex4", "hex2"]
    for v in VALS:
        for sp in esp:
            if R.spell(v, sp) is not None:
                for place in ("before", "after"):
                    out.append(("equ", v, sp, place))
    for v in (-1, -7, -200):
        for place in ("before", "after"):
            out.append(("equ", v, "dec", place))
    out.append(("LB", None, None, None))
    out.append(("LA", None, None, None))
    return out


CORE_TERMS = [("lit", 1, "dec", None), ("lit", 5, "hex2", None), ("lit", 200, "dec", None), ("lit", 256, "hex", None),
              ("lit", 4660, "hex4", None), ("lit", 65535, "dec", None), ("lit", 0, "dec", None), ("equ", 5, "dec", "before"),
              ("equ", 200, "hex2", "after"), ("equ", 4660, "hex4", "before"), ("equ", 0, "dec", "after"), ("equ", 300, "dec", "before"),
              ("equ", -7, "dec", "before"), ("equ", -1, "dec", "after"),
              ("LB", None, None, None), ("LA", None, None, None)]


def cases(tier, seed):
    terms = all_terms(tier)
    for pos in POSITIONS:
        for t in terms:
            yield {"pos": pos, "l": list(t), "op": None, "r": None}
        pair_terms = CORE_TERMS if tier == "quick" else terms
        for a, b in itertools.product(pair_terms, repeat=2):
            for op in OPS:
                yield {"pos": pos, "l": list(a), "op": op, "r": list(b)}
        # the same symbols used a second time: an earlier statement of the program already used each EQU symbol in label-SYM / label+SYM / SYM+1
        for a, b in itertools.product(CORE_TERMS, repeat=2):
            if a[0] == "equ" or b[0] == "equ":
                for op in OPS:
                    for prime in ("LB-{}", "LB+{}", "{}+1"):
                        yield {"pos": pos, "l": list(a), "op": op, "r": list(b), "prime": prime}
        for t in CORE_TERMS:
            if t[0] == "equ":
                for prime in ("LB-{}", "LB+{}", "{}+1"):
                    yield {"pos": pos, "l": list(t), "op": None, "r": None, "prime": prime}
        # symbols whose names read as numbers in some notation: hex digits with or without a trailing H, a leading digit
        # (only the combinations that are plainly valid: the known findings are judged under their own names)
        if pos not in ("fcb", "fdb", "rmb", "equ"):
            lits = [t for t in CORE_TERMS if t[0] == "lit"]
            equs = [t for t in CORE_TERMS if t[0] == "equ"]
            for t in equs + [("LB", None, None, None), ("LA", None, None, None)]:
                yield {"pos": pos, "l": list(t), "op": None, "r": None, "names": "hexlike"}
            for e in (equs if pos not in ("addr", "dir") else []):        # addr/dir: KF-C04-3 (constants' expressions and the direct mode)
                for x in lits[:4] + equs[:3]:
                    for op in ("+", "-"):
                        yield {"pos": pos, "l": list(e), "op": op, "r": list(x), "names": "hexlike"}
                    yield {"pos": pos, "l": list(x), "op": "+", "r": list(e), "names": "hexlike"}
            for lab in (("LB", None, None, None), ("LA", None, None, None)):
                for x in lits[:4]:
                    yield {"pos": pos, "l": list(lab), "op": "+", "r": list(x), "names": "hexlike"}
                    yield {"pos": pos, "l": list(lab), "op": "-", "r": list(x), "names": "hexlike"}
                    yield {"pos": pos, "l": list(x), "op": "+", "r": list(lab), "names": "hexlike"}
        # results that land exactly on and next to the width limits of the field (127/128/129, 255/256, -128/-129, 15/16/17), reached from
        # short terms (two hex digits, small decimals, EQU constants written that way)
        if pos in ("imm8", "imm16", "ext", "extind", "idx", "idxind", "pcr"):
            short = [("lit", 127, "hex2", None), ("lit", 123, "dec", None), ("lit", 64, "hex2", None), ("lit", 15, "dec", None), ("lit", 250, "hex2", None),
                     ("equ", 127, "hex2", "before"), ("equ", 64, "dec", "after"), ("equ", 130, "hex2", "before")]
            small = [("lit", 1, "dec", None), ("lit", 2, "dec", None), ("lit", 5, "hex2", None), ("lit", 6, "dec", None), ("equ", 1, "dec", "before")]
            for a in short:
                for b in small:
                    for op in ("+", "-", "*"):
                        yield {"pos": pos, "l": list(a), "op": op, "r": list(b), "edge": True}
                        if op == "+":
                            yield {"pos": pos, "l": list(b), "op": op, "r": list(a), "edge": True}
            for a in (("lit", 1, "dec", None), ("lit", 5, "hex2", None), ("equ", 1, "dec", "before")):
                for b in (("lit", 129, "dec", None), ("lit", 130, "hex2", None), ("lit", 133, "dec", None), ("equ", 130, "hex2", "before"), ("equ", 134, "dec", "after")):
                    yield {"pos": pos, "l": list(a), "op": "-", "r": list(b), "edge": True}
        # the label sits on the very first statement of the program (statement index 0, address 0: no ORG, no EQU before it)
        if pos in ("fcb", "fdb", "rmb", "equ"):
            continue        # these positions do not evaluate symbols at all (KF-C04-1, KF-C04-2): the layout adds nothing there
        lb = ("LB", None, None, None)
        yield {"pos": pos, "l": list(lb), "op": None, "r": None, "first": True}
        for t in CORE_TERMS:
            if t[0] == "lit" or (t[0] == "equ" and t[3] == "after"):
                for op in ("+", "-"):
                    yield {"pos": pos, "l": list(lb), "op": op, "r": list(t), "first": True}
                yield {"pos": pos, "l": list(t), "op": "+", "r": list(lb), "first": True}


def term_text(t, name):
    kind, v, sp, place = t
    if kind == "lit":
        return R.spell(v, sp)
    if kind == "equ":
        return name
    return kind


def build(case):
    pos, l, op, r = case["pos"], case["l"], case["op"], case["r"]
    pre, post = [], []
    for t, name in ((l, "EA"), (r, "EB")):
        if t and t[0] == "equ":
            ln = "{} EQU {}".format(name, R.spell(t[1], t[2]))
            (pre if t[3] == "before" else post).append(ln)
    e = term_text(l, "EA")
    if op:
        e = e + op + term_text(r, "EB")
    mnem, tmpl = STMT[pos]
    stmt = "{} {} {}".format("Q" if pos == "equ" else "", mnem, tmpl.format(e=e))
    primes = []
    if case.get("prime"):
        for t, name in ((l, "EA"), (r, "EB")):
            if t and t[0] == "equ":
                primes.append(" LDU #" + case["prime"].format(name))
    mid = ([" ORG $4000", "LB NOP"] if not case.get("first") else ["LB NOP", " NOP", " NOP"]) + primes + [stmt]
    if pos == "equ":
        mid.append(" LDX #Q")
    mid.append("LA NOP")
    if case.get("names") == "hexlike":
        import re as _re
        ren = {"EA": "EACH", "EB": "BH", "LA": "FACE", "LB": "ADDH", "Q": "9Q"}
        sub = lambda ln: _re.sub(r"(?<![\w$'%])(EA|EB|LA|LB|Q)(?!\w)", lambda m: ren[m.group(1)], ln)
        pre, mid, post = [sub(x) for x in pre], [sub(x) for x in mid], [sub(x) for x in post]
    return pre + mid + post, len(pre) + (3 if case.get("first") else 2) + len(primes)


def all_programs(tier):
    for c in cases(tier, 0):
        yield build(c)[0]


def kind_tag(t):
    if t is None:
        return "-"
    if t[0] == "lit":
        return "lit." + t[2]
    if t[0] == "equ":
        return "equ.{}.{}".format(t[2], t[3])
    return t[0]


def rclass(r):
    if r is None:
        return "div0"
    if r < 0:
        return "neg"
    if r <= 255:
        return "u8"
    if r <= 65535:
        return "u16"
    return "over"


def term_value(t, syms):
    if t[0] in ("lit", "equ"):
        return t[1]
    return syms.get(t[0])


def arith(a, op, b):
    if op is None:
        return a
    if op == "+":
        return a + b
    if op == "-":
        return a - b
    if op == "*":
        return a * b
    if b == 0:
        return None
    q = abs(a) // abs(b)
    return q if (a >= 0) == (b >= 0) else -q


def core_valid(case, r, w):
    """combinations the README exhibits and whose result fits the field: must be accepted"""
    if r is None or not 0 <= r <= (1 << w) - 1:
        return False
    if case["pos"] == "rmb" and r > 0x8000:
        return False      # the program would not fit in the address space above $4000
    l, op, rt = case["l"], case["op"], case["r"]
    if case["pos"] in ("bra",) and l[0] not in ("LB", "LA") and (rt is None or rt[0] not in ("LB", "LA")):
        return False      # numeric branch targets are left open
    if case["pos"] == "pcr" and not any(t and t[0] in ("LB", "LA") for t in (l, rt)):
        if any(t and t[0] == "equ" for t in (l, rt)):
            return False  # EQU,PCR: offset or target - undocumented
    if case["pos"] == "equ" and any(t and t[0] in ("LB", "LA") for t in (l, rt)):
        return False      # EQU of an address: undocumented
    if op is None:
        return True
    lab_l, lab_r = l[0] in ("LB", "LA"), rt[0] in ("LB", "LA")
    if not lab_l and not lab_r:
        return True
    if lab_l and lab_r:
        return False
    lit = rt if lab_l else l
    if lit[0] != "lit":
        return False
    return op == "+" or (op == "-" and lab_l)


def check_case(case):
    pos = case["pos"]
    lines, idx = build(case)
    out = common.assemble_confirm(lines)
    w = WIDTH[pos]
    cell = "{}|{}|{}|{}".format(pos, kind_tag(case["l"]), case["op"] or "single", kind_tag(case["r"]))
    nprime = 0
    if case.get("first"):
        cell = cell.replace(pos + "|", pos + ".first|", 1)
    if case.get("names"):
        cell = cell.replace(pos + "|", pos + ".hexlike|", 1)
    if case.get("prime"):
        cell = cell.replace(pos + "|", "{}.after[{}]|".format(pos, case["prime"].format("S")), 1)
        nprime = sum(1 for t in (case["l"], case["r"]) if t and t[0] == "equ")
    res = {"outcome": out["kind"], "state": out["kind"] + ":" + pos, "nontrivial": False}
    viol = []

    def bad(symptom, expected, observed, rc):
        viol.append({"component": "expr", "cell": cell + "|" + rc, "symptom": symptom, "expected": expected, "observed": observed,
                     "input": dict(case, lines=lines)})

    # label values: LB is fixed by the ORG; LA is read from the symbol table when accepted
    syms = {"LB": 0x4000 if not case.get("first") else 0}
    if out["kind"] == "OK" and case.get("names") == "hexlike":
        back = {"EACH": "EA", "BH": "EB", "FACE": "LA", "ADDH": "LB", "9Q": "Q"}
        out = dict(out, symbols={back.get(k, k): v for k, v in out["symbols"].items()})
    if out["kind"] == "OK":
        syms["LA"] = out["symbols"].get("LA")
        if out["symbols"].get("LB") != syms["LB"] or syms["LA"] is None:
            bad("labels missing or moved", "LB=$4000, LA listed", str(out["symbols"]), "?")
            res["viol"] = viol
            return res
    else:
        syms["LA"] = None
    lv = term_value(case["l"], syms)
    rv = term_value(case["r"], syms) if case["op"] else 0
    uses_la = case["l"][0] == "LA" or (case["r"] and case["r"][0] == "LA")
    if out["kind"] != "OK":
        if uses_la:
            # LA's address depends on the statement's own length: 3 (short forms) .. 5 bytes after LB+1
            cands = [0x4001 + 3 * nprime + k for k in (1, 2, 3, 4, 5)]
        else:
            cands = [None]
        results = []
        for la in cands:
            s2 = dict(syms, LA=la)
            a = term_value(case["l"], s2)
            b = term_value(case["r"], s2) if case["op"] else 0
            results.append(arith(a, case["op"], b))
        divzero = all(x is None for x in results)
        valid = all(core_valid(case, x, w) for x in results)
        rc = rclass(results[0])
        if out["kind"] == "DIAG":
            if valid:
                bad("valid expression rejected", "accepted, value {}".format(results[0]), common.outcome_brief(out), rc)
        elif out["kind"] == "INTERNAL":
            if divzero:
                bad("division by zero not diagnosed", "ParseError/TranslationError", common.outcome_brief(out), rc)
            elif valid:
                bad("valid expression crashed", "accepted, value {}".format(results[0]), common.outcome_brief(out), rc)
        if viol:
            res["viol"] = viol
        return res
    r = arith(lv, case["op"], rv)
    rc = rclass(r)
    if r is None:
        bad("division by zero accepted", "diagnostic", common.outcome_brief(out), rc)
        res["viol"] = viol
        return res
    image = out["image"]
    body = image[(3 if case.get("first") else 1) + 3 * nprime:-1]
    if pos == "equ":
        body = body            # the LDX #Q statement
    rm = r % 65536
    fits = rm < (1 << w) or (r < 0 and r >= -(1 << (w - 1)))
    want = r % (1 << w)
    got = None
    if pos in ("fcb", "fdb"):
        n = w // 8
        if len(body) != n:
            bad("wrong byte count", "{} byte(s)".format(n), body.hex().upper(), rc)
        else:
            got = int.from_bytes(body, "big")
    elif pos == "rmb":
        if 0 <= r <= 65535:
            if len(body) != r or any(body):
                bad("wrong reservation", "{} zero bytes".format(r), "{} bytes".format(len(body)), rc)
        else:
            bad("out-of-range count accepted", "diagnostic", "{} bytes".format(len(body)), rc)
        got = want
    else:
        mnem = "LDX" if pos == "equ" else STMT[pos][0]
        a_stmt = out["addrs"][idx + (1 if pos == "equ" else 0)]
        rec, why = R.check_statement_bytes(mnem, body, a_stmt)
        if rec is None:
            bad("malformed instruction", "one {} instruction".format(mnem), why + " <- " + body.hex().upper(), rc)
        else:
            if pos in ("imm8", "imm16", "equ"):
                got = rec.get("imm")
            elif pos in ("addr", "dir", "ext"):
                got = rec.get("addr")
                if pos == "dir" and rec["mode"] != "DIR":
                    bad("forced direct ignored", "DIR", rec["mode"], rc)
                if pos == "ext" and rec["mode"] != "EXT":
                    bad("forced extended ignored", "EXT", rec["mode"], rc)
            elif pos == "extind":
                got = rec.get("addr") if rec.get("sub") == "extind" else None
            elif pos in ("idx", "idxind"):
                got = (rec["offset"] & 0xFFFF) if rec.get("sub") == "off" and rec["reg"] == ("Y" if pos == "idx" else "U") and \
                    rec["indirect"] == (pos == "idxind") else None
            elif pos == "pcr":
                has_label = any(t and t[0] in ("LB", "LA") for t in (case["l"], case["r"]))
                has_equ = any(t and t[0] == "equ" for t in (case["l"], case["r"]))
                if rec.get("sub") == "pcr":
                    if has_label:
                        got = rec["target"]
                    elif has_equ:
                        got = want if (rec["disp"] & 0xFFFF) == want else rec["target"]
                    else:
                        got = rec["disp"] & 0xFFFF
            elif pos == "bra":
                got = rec.get("target")
            if got is None and not viol:
                bad("wrong addressing form", STMT[pos][1], str(rec.get("key")), rc)
    # division with a negative operand: "truncating / on 16-bit quantities" admits the signed truncating quotient and the quotient
    # of the unsigned 16-bit patterns; flooring (or anything else) is wrong under both readings
    alt = None
    if case["op"] == "/" and (lv < 0 or rv < 0) and rv != 0:
        alt = ((lv % 65536) // (rv % 65536)) % (1 << w)
    if not viol and got is not None and alt is not None and got == alt:
        got = None
    if not viol and got is not None:
        if not fits:
            bad("value that does not fit the field accepted", "diagnostic (or, for 16-bit fields, r mod 65536)",
                "r={} encoded as {}".format(r, got), rc)
        elif got != want:
            bad("wrong value", "{} (= {} mod 2^{})".format(want, r, w), "{} <- {}".format(got, body.hex().upper()[:16]), rc)
    res["state"] = "{}:{}:{}".format(pos, rc, got)
    res["nontrivial"] = True
    if viol:
        res["viol"] = viol
    if zlib.crc32(repr(sorted(case.items())).encode()) % 7001 == 0:
        res["sample"] = {"lines": lines, "value": r, "image": image.hex().upper()[:40]}
    return res


def describe(tier):
    return {
        "alphabet": "positions {} x (single term | term op term, op in + - * /) x terms: literals {} in spellings, EQU constants of the same "
                    "values (+300) in spellings defined before/after use, label before use (LB=$4000), label after use (LA), and LB on the first statement of a program without ORG (statement index 0, address 0) with +- a literal or a later EQU".format(POSITIONS, VALS),
        "bound": "all single terms; all ordered pairs over " + ("a 14-term core" if tier == "quick" else "the full term set") + " x 4 operators x 14 positions",
        "oracle": "integer arithmetic (labels = symbol-table addresses); accepted => decoded field = r mod 2^w and r representable in w bits "
                  "(or negative within the signed range); /0 => diagnostic; results outside 0..65535 => diagnostic or r mod 65536; "
                  "rejection is a violation only for README-exhibited combinations whose result fits",
        "rule": "complete product; state = (position, result class, encoded value); non-trivial = accepted",
        "assumptions": ["for / with a negative EQU constant both the signed truncating and the unsigned 16-bit quotient are accepted", "EQU,PCR may mean offset or target", "numeric branch targets left open",
                        "EQU of a label expression left open"],
    }
