"""
Maintainer tool: evaluate a seeded property-breaking change against the checks.

  python -m mc.seeded eval <dir-with-patch.diff-and-demo.py> [--checks C01,C02,...] [--tier quick]

Copies /repo to a scratch directory outside /repo and /verif, applies patch.diff there, runs the repository suite
(must stay 490 passed / 4 failed), runs demo.py with and without the patch, runs the named checks (default: all) with
VERIF_REPO pointing at the copy, prints which checks report a VIOLATION, and removes the copy.
"""
import argparse
import json
import os
import shutil
import subprocess
import sys
import tempfile
import time

from . import run as runmod

PY = "/venv/bin/python"


def sh(cmd, cwd=None, env=None, timeout=3600):
    r = subprocess.run(cmd, shell=True, cwd=cwd, env=env, capture_output=True, text=True, timeout=timeout)
    return r.returncode, r.stdout + r.stderr


def main():
    ap = argparse.ArgumentParser()
    ap.add_argument("cmd", choices=["eval"])
    ap.add_argument("dir")
    ap.add_argument("--checks", default="all")
    ap.add_argument("--tier", default="quick")
    a = ap.parse_args()
    d = os.path.abspath(a.dir)
    patch = os.path.join(d, "patch.diff")
    scratch = tempfile.mkdtemp(prefix="seeded_", dir="/var/tmp")
    copy = os.path.join(scratch, "repo")
    result = {"dir": d, "checks": {}}
    try:
        sh("rsync -a --exclude .git /repo/ {}/".format(copy))
        demo = os.path.join(d, "demo.py")
        if os.path.exists(demo):
            shutil.copy(demo, os.path.join(copy, "demo.py"))
            rc0, out0 = sh("{} demo.py".format(PY), cwd=copy)
            result["demo_without"] = rc0
        rc, out = sh("patch -p1 < {}".format(patch), cwd=copy)
        if rc != 0:
            # the tree has moved on under this change (a later fix touched the same lines): evaluate it on the commit it applies to
            meta = os.path.join(d, "meta.json")
            base = json.load(open(meta)).get("applies_to_repo_commit") if os.path.exists(meta) else None
            if not base:
                print("PATCH FAILED", out)
                result["patch"] = "failed"
                print(json.dumps(result))
                return
            shutil.rmtree(copy)
            os.makedirs(copy)
            sh("git -C /repo archive {} | tar -x -C {}".format(base, copy))
            if os.path.exists(demo):
                shutil.copy(demo, os.path.join(copy, "demo.py"))
            rc, out = sh("patch -p1 < {}".format(patch), cwd=copy)
            result["evaluated_on"] = base
            print("patch does not apply to HEAD; evaluated on /repo commit {} (checks may also report defects repaired since)".format(base))
            if rc != 0:
                print("PATCH FAILED", out)
                result["patch"] = "failed"
                print(json.dumps(result))
                return
        rc, out = sh("{} -m pytest -q -p no:cacheprovider 2>&1 | tail -1".format(PY), cwd=copy)
        result["suite"] = out.strip()
        if os.path.exists(demo):
            rc1, out1 = sh("{} demo.py".format(PY), cwd=copy)
            result["demo_with"] = rc1
            result["demo_output"] = out1.strip()[-300:]
        sh("find {} -name __pycache__ -prune -exec rm -rf {{}} +".format(copy))
        checks = sorted(runmod.CHECKS) if a.checks == "all" else a.checks.split(",")
        env = dict(os.environ, VERIF_REPO=copy, VERIF_NO_EVIDENCE="1")
        for c in checks:
            t0 = time.time()
            rc, out = sh("{} -m mc.run {} --tier {}".format(PY, c, a.tier), cwd="/verif", env=env)
            viol = [ln for ln in out.splitlines() if ln.startswith("VIOLATION")]
            detail = [ln.strip() for ln in out.splitlines() if ln.startswith("  cell=")][:2]
            result["checks"][c] = {"exit": rc, "violations": len(viol), "first": detail, "wall": round(time.time() - t0, 1)}
            print("{} exit={} violations={} {:.0f}s {}".format(c, rc, len(viol), time.time() - t0, detail[:1]), flush=True)
    finally:
        shutil.rmtree(scratch, ignore_errors=True)
    det = [c for c, r in result["checks"].items() if r["exit"] == 1]
    result["detected_by"] = det
    print(json.dumps({k: v for k, v in result.items() if k != "checks"}, indent=1))
    with open(os.path.join(d, "eval_{}.json".format(a.tier)), "w") as f:
        json.dump(result, f, indent=1)


if __name__ == "__main__":
    main()
