"""
C08 - every disk image written is a structurally valid Disk BASIC filesystem.

Every image produced by C07's write side (single-file sweeps, lists, 72 fill orders) and by C15's fill
histories is checked by the independent fsck of mc/ref/dskfs.py (the property, sentence by sentence).
"""
import zlib

from .. import common
from .. import containers as C
from ..ref import dskfs
from . import c07

PROP = "C08"
CHUNK = 8


ODD_NAMES = ["\0\0\0HELLO", "\0", "A\0B", "AB\0\0", " LEAD", "\u00ffX", "\u00e5ABC", "", "A B", "a/b", "*", "X:1", "\u20acURO"]


def cases(tier, seed):
    for c in c07.cases(tier, seed):
        if c["k"] in ("write", "frag"):
            yield c
    # names outside the domain of C07 (not letters/digits): the writer may refuse them, but whatever image it writes must be consistent
    for nm in ODD_NAMES:
        for n in (30, 3000):
            yield {"k": "wname", "files": [c07.fspec("ML", n, nm), c07.fspec("BAS", 30, "WORLD", "BAS")], "fill": "default"}
            yield {"k": "wname", "files": [c07.fspec("ML", 10, "FIRST"), c07.fspec("ASC", n, nm, "TXT"), c07.fspec("ML", 30, "LAST")], "fill": "default"}
    # content made of one byte value over whole granules ($00, $FF, $55): a granule's worth of such bytes is still data
    for pat in ("00", "ff", "55"):
        for kind, n in (("ML", 7000), ("ML", 3 * 2304 - 10), ("ASC", 2 * 2304), ("BAS", 7000)):
            yield {"k": "write", "files": [c07.fspec("ML", 10, "HEAD"), c07.fspec(kind, n, "SOLID", "DAT", pat=pat), c07.fspec("ML", 10, "TAIL")], "fill": "default"}
    # lists that do not fit, handed over in one call: whatever the buffer holds after the refusal must still be consistent
    for sizes in ([66, 3], [30, 30, 30], [1, 68], [34, 34, 1]):
        yield {"k": "overfull", "sizes": sizes, "fill": "default", "files": []}
    # a file whose length does not fit the 16-bit field of its header (machine language, binary BASIC / data): stored or refused, the buffer
    # must be consistent afterwards, and after one more addition
    for kind in ("ML", "BAS", "DATB"):
        for n in (65535, 65536, 70000):
            for pre in (0, 2):
                yield {"k": "toolong", "kind": kind, "n": n, "pre": pre, "fill": "default", "files": []}
    # what the command line tools leave in a --to_dsk target that is already there: whatever kind of file it was before, a target the tool
    # wrote to is a disk image afterwards (a refusal that leaves it alone is fine)
    for tool in ("asm", "futil"):
        for pre in ("absent", "empty", "junk", "cas", "blankdsk", "dskfiles", "shortdsk", "onebyte", "longdsk", "linkdsk"):
            for append in (True, False):
                yield {"k": "cli", "tool": tool, "pre": pre, "append": append, "fill": "default", "files": []}
    # fill histories: k-granule files until the disk is full (the images on the way are checked)
    for k in (1, 2, 3, 5, 9, 17, 34):
        yield {"k": "fill", "gran": k, "fill": "default", "files": []}
    for name in ("identity", "reverse", "oddeven", "rot33"):
        yield {"k": "fill", "gran": 3, "fill": name, "files": []}


def check_case(case):
    res = {"nontrivial": True, "outcome": "ok", "transitions": 1}
    viol = []
    images = []
    if case["k"] in ("write", "frag", "wname"):
        cell = c07.cell_of(case) if case["k"] != "wname" else "wname|{}|{}".format(
            [f["name"] for f in case["files"] if f["name"] not in ("WORLD", "FIRST", "LAST")][0].encode("unicode_escape").decode(), len(case["files"]))
        try:
            if case["k"] == "frag":
                img, specs = c07.build_frag(case)
                images.append((cell, img, specs))
            else:
                images.append((cell, c07.build_image(case), case["files"]))
        except Exception as e:
            res.update(state="writer-error", outcome="writer-error")
            return res       # reported by C07 / C15
    elif case["k"] == "cli":
        import os, shutil
        from .. import cli
        from ..ref import tape
        from . import c16
        cell = "cli|{}|{}|{}".format(case["tool"], case["pre"], "append" if case["append"] else "new")
        td = common.mkdtemp(prefix="c08_")
        cwd = os.getcwd()
        try:
            os.chdir(td)
            pre = {"absent": None, "empty": b"", "onebyte": b"\x00", "junk": bytes((i * 37 + 11) & 0xFF for i in range(700)).replace(b"\x55\x3c", b"\x55\x3d"),
                   "cas": tape.write([dict(name="OLD", type=2, dtype=0, load=0x2000, exec=0x2000, data=bytes(range(60)))]),
                   "blankdsk": dskfs.write([]), "shortdsk": dskfs.write([])[:-256]}.get(case["pre"])
            if case["pre"] in ("dskfiles", "longdsk", "linkdsk"):
                # longdsk: a 40-track dump (a valid 35-track image followed by five more tracks); linkdsk: the target is a symbolic link to the image
                c16.write_source("out.dsk" if case["pre"] != "linkdsk" else "real.dsk", "dsk", [0, 1])
                if case["pre"] == "longdsk":
                    open("out.dsk", "ab").write(b"\xFF" * (5 * 18 * 256))
                if case["pre"] == "linkdsk":
                    os.symlink("real.dsk", "out.dsk")
                pre = open("out.dsk", "rb").read()
            elif pre is not None:
                open("out.dsk", "wb").write(pre)
            if case["tool"] == "asm":
                open("p.asm", "w").write(" NAM PROG\n ORG $0E00\nSTART LDA #1\n RTS\n END START\n")
                status, out = cli.assembler("p.asm", to_dsk="out.dsk", append=case["append"])
            else:
                c16.write_source("src.cas", "cas", [0, 2])
                status, out = cli.file_util("src.cas", to_dsk="out.dsk", append=case["append"])
            post = open("out.dsk", "rb").read() if os.path.exists("out.dsk") else None
        finally:
            os.chdir(cwd)
            shutil.rmtree(td, ignore_errors=True)
        if str(status).startswith(("TRACEBACK", "HANG")):
            viol.append({"component": "fsck", "cell": cell, "symptom": "command line tool ends in {}".format(str(status).split()[0].lower()),
                         "expected": "a disk image or a refusal", "observed": str(status), "input": case})
        if post is not None and post != pre:
            images.append((cell, post, None))
        else:
            res["outcome"] = "refused" if post == pre and pre is not None else "nothing written"
    elif case["k"] == "toolong":
        from cocoasm.virtualfiles.disk import DiskFile
        df = DiskFile()
        seq = [c07.fspec("ML", 2304 - 15, "P{}".format(j)) for j in range(case["pre"])]
        seq.append(c07.fspec(case["kind"], case["n"], "LONG", "DAT"))
        seq.append(c07.fspec("ML", 3000, "NEXT"))
        cellbase = "toolong|{}|{}|pre{}".format(case["kind"], case["n"], case["pre"])
        for step, s in enumerate(seq):
            try:
                df.add_file(C.to_coco(s))
            except Exception:
                pass
            img = bytes(df.get_buffer())
            images.append(("{}|step{}".format(cellbase, step), img, None))
        res["transitions"] = len(images)
    elif case["k"] == "overfull":
        from cocoasm.virtualfiles.disk import DiskFile
        df = DiskFile()
        files = []
        for i, k in enumerate(case["sizes"]):
            if k == 66:
                files += [c07.fspec("ML", 100, "S{}".format(j)) for j in range(66)]
            else:
                files.append(c07.fspec("ASC", k * 2304 - 7, "B{}".format(i), "TXT"))
        stored = []
        try:
            df.add_files([C.to_coco(s) for s in files])
            stored = files
        except Exception:
            stored = None
        img = bytes(df.get_buffer())
        if stored is None:
            stored = [s for s in files if any(e["name"].rstrip() == s["name"].encode() for e in dskfs.entries(img))]
        images.append(("overfull|{}".format("+".join(map(str, case["sizes"]))), img, stored))
    else:
        from cocoasm.virtualfiles.disk import DiskFile
        order = c07.order_by_name(case["fill"])
        df = DiskFile(granule_fill_order=order) if order else DiskFile()
        n = case["gran"] * 2304 - 10 - 5
        i = 0
        files = []
        while i < 80:
            s = c07.fspec("ML", n, "F{}".format(i))
            try:
                df.add_file(C.to_coco(s))
            except Exception:
                break
            files.append(s)
            i += 1
            images.append(("fill|{}gran|{}|{}".format(case["gran"], case["fill"], "step"), bytes(df.get_buffer()), list(files)))
        res["transitions"] = max(1, len(images))
    crc = 0
    for cell, img, files in images:
        crc = zlib.crc32(img, crc)
        probs = dskfs.fsck(img)
        cats = sorted(set(p[0] for p in probs))
        for cat in cats:
            detail = next(p[1] for p in probs if p[0] == cat)
            viol.append({"component": "fsck", "cell": cell, "symptom": "fsck: " + cat, "expected": "consistent Disk BASIC filesystem",
                         "observed": detail, "input": dict(case, nfiles=len(files) if files is not None else None)})
        if not probs and files is not None:
            # "... the stream obtained by concatenating the chain's granules in chain order is header, data, trailer"
            try:
                got = {f["name"].strip().upper(): f for f in dskfs.read_files(img)}
                for spec in files:
                    if spec["type"] == 2 and spec["dtype"] == 0:
                        g = got.get(spec["name"].upper()[:8].strip())
                        if g is not None and (bytes(g["data"]) != C.pattern(spec["n"], spec["pat"]) or g["load"] != spec["load"] or g["exec"] != spec["exec"]):
                            viol.append({"component": "fsck", "cell": cell, "symptom": "machine-language stream is not header, data, trailer of the file",
                                         "expected": "{} bytes of {}".format(spec["n"], spec["pat"]), "observed": "{} bytes, load {:04X}".format(len(g["data"]), g["load"] or 0),
                                         "input": dict(case, nfiles=len(files))})
                            break
            except dskfs.FsError:
                pass
            ents = dskfs.entries(img)
            if len(ents) != len(files):
                viol.append({"component": "fsck", "cell": cell, "symptom": "directory holds {} entries for {} files".format(
                    "fewer" if len(ents) < len(files) else "more", "n"), "expected": len(files), "observed": len(ents), "input": case})
        if viol:
            break
    res["state"] = "img:{}".format(crc) if case["k"] != "cli" else "cli:{}:{}:{}".format(case["pre"], res["outcome"], crc)
    if viol:
        res["viol"] = viol
        res["outcome"] = "violation"
    if zlib.crc32(repr(case).encode()) % 257 == 0:
        res["sample"] = {"case": images[0][0] if images else "none", "images": len(images)}
    return res


def describe(tier):
    d = c07.describe(tier)
    d["alphabet"] = d["alphabet"].split("; read side")[0] + "; ML / BASIC / data files of 65,535, 65,536 and 70,000 bytes (longer than their 16-bit length field) offered to an empty and a part-filled object, the buffer checked after every step; fill histories: 1,2,3,5,9,17,34-granule files added until full (default order) and 3-granule files under 4 other orders, every intermediate image"
    d["oracle"] = ("independent fsck: size 161280; every directory entry's chain stays in 0..67, is acyclic, ends in $C0+n (n<=9); chains disjoint; "
                   "every non-free FAT byte in a chain; implied length = stored stream length; ML stream = 00 len load data FF 00 00 exec in chain "
                   "order; no byte outside allocated granules / FAT sector / directory sectors differs from a blank (all $FF) image")
    return d
