"""
C07 - disk images round-trip every file exactly, wherever its granules lie.

Write side: single-file parameter sweeps (every length around sector and granule boundaries, all file
kinds, names, extensions), file lists, and 72 granule fill orders through DiskFile.add_files ->
DiskFile(buffer).list_files, cross-checked with the independent reader of mc/ref/dskfs.py.
Read side: images from the independent writer with every chain of length <= 3 over a granule set that
includes descending, non-adjacent and track-17-crossing chains are listed by the real reader.
"""
import itertools
import zlib

from .. import common
from .. import containers as C
from ..ref import dskfs

PROP = "C07"
CHUNK = 8

KINDS = {"ML": (2, 0), "BAS": (0, 0), "ASC": (0, 0xFF), "DAT": (1, 0xFF),
         # every other (file type, ASCII flag) combination a tape or another tool can hand over
         "MLA": (2, 0xFF), "DATB": (1, 0), "TXT": (3, 0xFF), "TXTB": (3, 0)}
HDR = {"ML": 10, "BAS": 3, "ASC": 0, "DAT": 0, "MLA": 10, "DATB": 3, "TXT": 0, "TXTB": 3}
_BY_CODE = {v: k for k, v in KINDS.items()}
DEFAULT_ORDER = None


def stream_kind(kind):
    """which stream layout a file kind has on disk: machine-language header+trailer, length header only, or raw"""
    return "ml" if HDR[kind] == 10 else "basic" if HDR[kind] == 3 else "ascii"


def kind_of(s):
    k = _BY_CODE.get((s["type"], s["dtype"]))
    if k:
        return k
    if s["type"] == 2:
        return "ML"
    return "ASC" if s["dtype"] == 0xFF else "BAS"


def lenclass(s):
    """class of the stored stream length relative to sector / granule boundaries"""
    k = kind_of(s)
    st = s["n"] + HDR[k]
    if s["n"] == 0:
        return "empty"
    for unit, tag in ((2304, "g"), (256, "s")):
        m = round(st / unit)
        d = st - m * unit
        if m >= 1 and -10 <= d <= 10:
            return "{}{}{:+d}".format(tag, m if m <= 4 or unit == 256 and m <= 10 else "N", d)
    return "other" if s["n"] > 1 else "one"


def fspec(kind, n, name="F", ext="BIN", pat="ramp", load=0x0E00, exec_=0x0E10):
    t, d = KINDS[kind]
    if kind not in ("ML", "MLA"):
        load = exec_ = 0
    return C.spec(name, ext, t, d, load, exec_, n, pat)


def boundary_lengths(kind):
    h = HDR[kind]
    out = {0, 1, 2, 65535, 40000}
    for k in range(1, 11):
        for d in range(-10, 11):
            out.add(k * 256 - h + d)
    for k in range(1, 5):
        for d in range(-10, 11):
            out.add(k * 2304 - h + d)
    for k in (9, 18, 27):
        for d in (-1, 0, 1):
            out.add(k * 2304 - h + d)
    return sorted(x for x in out if 0 <= x <= 65535)


ALPHA = [fspec("ML", 1, "A"), fspec("ML", 2294, "B", pat="ff"), fspec("ML", 2295, "C"), fspec("ML", 4599, "D", pat="00"),
         fspec("ML", 0, "E"), fspec("BAS", 10, "BASPRG", "BAS"), fspec("ASC", 300, "TEXT", "TXT"), fspec("DAT", 2304, "DATA", "DAT"),
         fspec("ML", 7000, "lower", "bin", pat="ramp7"), fspec("ML", 100, "LONGNAME9", "B"), fspec("BAS", 2301, "G", ""),
         fspec("ASC", 4608, "H", "A")]
CORE = [0, 1, 3, 5, 8]

NAMES = ["A", "AB", "Prog", "lower", "UPPER123", "ABCDEFGH", "ABCDEFGHI", "abcdefghijkl", "X1"]
EXTS = ["", "B", "BI", "BIN", "bas"]


def fill_orders():
    ident = list(range(68))
    default = None
    yield "default", default
    yield "identity", ident
    yield "reverse", ident[::-1]
    for r in range(1, 68):
        yield "rot{}".format(r), ident[r:] + ident[:r]
    yield "oddeven", [g for g in ident if g % 2] + [g for g in ident if not g % 2]
    yield "evenodd-desc", [g for g in ident[::-1] if not g % 2] + [g for g in ident[::-1] if g % 2]


CHAIN_SET = [0, 1, 32, 33, 34, 35, 66, 67]
# pre-existing images: (kind, stream length, chain) per old file
FRAG_BASES = [
    [("ML", 5000, [5, 67, 20])],
    [("ML", 2304 + 4, [66, 0]), ("ASC", 100, [35])],
    [("BAS", 7000, [33, 34, 32, 36]), ("ML", 10, [67])],
    [("ML", 4700, [40, 41, 43]), ("ML", 300, [42])],
    [("ASC", 2304, [1, 3]), ("ML", 2300, [0]), ("ML", 2400, [2, 64])],
    [("ML", 60000, list(range(67, 40, -1)))],
]


def cases(tier, seed):
    thorough = tier == "thorough"
    for kind in KINDS:
        lens = boundary_lengths(kind)
        if thorough and kind in ("ML", "BAS", "ASC"):
            lens = range(0, 65536)
        for n in lens:
            yield {"k": "write", "files": [fspec(kind, n)], "fill": "default"}
    for kind in ("MLA", "DATB", "TXT", "TXTB"):
        for n in (0, 1, 300, 2291, 2294, 2301, 2304, 4600):
            yield {"k": "write", "files": [fspec(kind, n)], "fill": "default"}
            yield {"k": "write", "files": [ALPHA[0], fspec(kind, n, "ODD"), ALPHA[5]], "fill": "default"}
    for n in (1, 300, 2294, 4600):
        for pat in ("ff", "00", "ramp7", "dir", "m00.p0"):
            yield {"k": "write", "files": [fspec("ML", n, pat=pat)], "fill": "default"}
    # text content under every line-end convention, for every kind of file (stored bytes are data, never translated)
    for kind in KINDS:
        for pat in ("dos", "unix", "mac", "mixeol"):
            for n in (2, 31, 300, 2400):
                yield {"k": "write", "files": [fspec(kind, n, "TEXT", "TXT", pat=pat)], "fill": "default"}
    for nm in NAMES:
        for ex in EXTS:
            yield {"k": "write", "files": [fspec("ML", 20, nm, ex)], "fill": "default"}
    for a in (0, 1, 0xFF, 0x100, 0x1234, 0xFFFF):
        for b in (0, 0xFF, 0x100, 0xFFFF):
            yield {"k": "write", "files": [fspec("ML", 20, load=a, exec_=b)], "fill": "default"}
    for n in (0, 2):
        for tup in itertools.product(range(len(ALPHA)), repeat=n):
            yield {"k": "write", "files": [ALPHA[i] for i in tup], "fill": "default"}
    core = range(len(ALPHA)) if thorough else CORE
    for tup in itertools.product(core, repeat=3):
        yield {"k": "write", "files": [ALPHA[i] for i in tup], "fill": "default"}
    # lists that use every one of the 68 granules
    full = [[fspec("ML", 65535, "BIG1", pat="ramp7"), fspec("ML", 65535, "BIG2", pat="ff"), fspec("ASC", 10 * 2304 - 1, "REST", "TXT")],
            [fspec("ML", 2 * 2304 - 20, "P{}".format(i)) for i in range(34)],
            [fspec("BAS", 2304 - 3 - 1, "S{}".format(i), "BAS") for i in range(68)]]
    for lst in full:
        for fill in ("default", "reverse", "oddeven"):
            yield {"k": "write", "files": lst, "fill": fill}
    lists = [[ALPHA[3]], [ALPHA[1], ALPHA[8], ALPHA[2]], [ALPHA[8], ALPHA[3], ALPHA[11]]]
    for name, order in fill_orders():
        for lst in lists:
            yield {"k": "write", "files": lst, "fill": name}
    # what the user sees: file_util.py <disk> --list
    for n in (0, 1, 2):
        for tup in itertools.product(range(len(ALPHA)), repeat=n):
            yield {"k": "clist", "files": [ALPHA[i] for i in tup], "fill": "default"}
    for kind in KINDS:
        yield {"k": "clist", "files": [fspec(kind, 77, "LISTED", "EXT", load=0x1234, exec_=0xFFFE)], "fill": "reverse"}
    # histories on ONE DiskFile object: add and list interleaved
    for tup in itertools.product((0, 1, 3, 5, 8), repeat=3):
        for ops in ("ALALAL", "AALAL", "LAALL"):
            yield {"k": "hist", "files": [ALPHA[i] for i in tup], "ops": ops, "fill": "default"}
    # ... and with additions that do not fit in between: they are refused and the listing still returns exactly the files stored
    for ops in ("HAHL", "HHAL", "AHHLAL", "HAHLHL"):
        for i in (0, 5, 8):
            yield {"k": "hist", "files": [ALPHA[i], ALPHA[1], ALPHA[6]], "ops": ops, "fill": "default"}
    # write side onto pre-existing fragmentation: a file is added to an image (independent writer) whose files sit on scattered chains
    for bi in range(len(FRAG_BASES)):
        for n in (1, 2290, 2295, 4599, 7000, 20000):
            for fill in ("default", "reverse", "identity", "oddeven"):
                yield {"k": "frag", "base": bi, "files": [fspec("ML", n, "NEWFILE", pat="ramp7")], "fill": fill}
    # read side: independent writer, arbitrary chains
    ends = {"mid": 1000, "exact": 2304, "strad1": 2304 + 1, "strad4": 2304 + 4, "strad-1": 2304 - 1, "two": 4608 + 7}
    chains = [c for n in (1, 2, 3) for c in itertools.permutations(CHAIN_SET, n)]
    for ch in chains:
        for endname, stream_len in ends.items():
            if stream_len // 2304 + 1 > len(ch):
                continue
            if stream_len // 2304 + 1 < len(ch) and not (endname == "two"):
                continue
            for kind in ("ML", "BAS", "ASC"):
                yield {"k": "read", "chain": list(ch), "end": endname, "slen": stream_len, "kind": kind, "second": None}
    # images written the way Disk BASIC writes them: a stream that ends exactly on a sector / granule boundary has no spare sector or
    # granule - the last sector is counted as full (last-granule marker $C9 and 256 bytes in the last sector for a full granule)
    for ch in chains:
        for endname, stream_len in (("tight.sector", 512), ("tight.gran", 2304), ("tight.2gran", 4608), ("tight.gran+sector", 2304 + 256)):
            if (stream_len + 2303) // 2304 != len(ch):
                continue
            for kind in ("ML", "BAS", "ASC"):
                yield {"k": "read", "chain": list(ch), "end": endname, "slen": stream_len, "kind": kind, "second": None, "tight": True}
    # directories with holes: K = a KILLed entry (first byte $00), U = a never-used entry ($FF), F = a live file
    for layout in HOLE_LAYOUTS:
        yield {"k": "holes", "layout": layout}
    for ch in [c for c in itertools.permutations(CHAIN_SET[:6], 2)]:
        other = [g for g in CHAIN_SET if g not in ch][:2]
        yield {"k": "read", "chain": list(ch), "end": "strad4", "slen": 2304 + 4, "kind": "ML", "second": other}


HOLE_LAYOUTS = ["KF", "UF", "FKF", "FUF", "KKF", "KUF", "UKF", "FKKF", "FUUUF", "KFKFK", "FFKFF", "K" * 70 + "FF", "F" + "K" * 70 + "F", "U" * 71 + "F",
                "FK" * 36]


def holes_image(layout):
    """independent writer: one small file per F at the slot of its letter, KILLed / unused entries in between"""
    files, specs, killed = [], [], []
    g = 0
    for slot, ch in enumerate(layout):
        if ch == "K":
            killed.append(slot)
        elif ch == "F":
            kind = ("ML", "BAS", "ASC")[len(files) % 3]
            t, d = KINDS[kind]
            n = 40 + 3 * len(files)
            data = C.pattern(n, "ramp7")
            nm = "H{}".format(slot)
            files.append({"name": nm, "ext": "BIN", "type": t, "dtype": d, "slot": slot, "chain": [g],
                          "stream": dskfs.make_stream(stream_kind(kind), data, 0x2000 + slot, 0x2100 + slot)})
            specs.append(C.spec(nm, "BIN", t, d, 0x2000 + slot if kind == "ML" else 0, 0x2100 + slot if kind == "ML" else 0, n, "ramp7"))
            g += 1
    return dskfs.write(files, killed=killed), specs


def order_by_name(name):
    for n, o in fill_orders():
        if n == name:
            return o
    raise KeyError(name)


def build_image(case):
    from cocoasm.virtualfiles.disk import DiskFile
    order = order_by_name(case["fill"])
    df = DiskFile(granule_fill_order=order) if order else DiskFile()
    df.add_files([C.to_coco(s) for s in case["files"]])
    return bytes(df.get_buffer())


def list_image(img):
    from cocoasm.virtualfiles.disk import DiskFile
    return [C.listed_to_dict(f) for f in DiskFile(buffer=list(img)).list_files()]


def cell_of(case):
    if case["k"] == "hist":
        return "hist|{}|{}".format(case["ops"], ",".join(lenclass(s) for s in case["files"]))
    if case["k"] == "clist":
        fs = case["files"]
        return "clist|{}|{}|{}".format(",".join(kind_of(s) for s in fs) or "none", ",".join(lenclass(s) for s in fs) or "none", case["fill"])
    if case["k"] == "holes":
        lay = case["layout"]
        return "read.holes|{}".format(lay if len(lay) <= 12 else "{}x{}..{}".format(lay[:2], len(lay), lay[-2:]))
    if case["k"] == "frag":
        return "frag|base{}|{}|{}".format(case["base"], lenclass(case["files"][0]), case["fill"])
    if case["k"] == "write" and len(case["files"]) > 4:
        fs = case["files"]
        return "write|{}x{}|{}|{}".format(kind_of(fs[0]), len(fs), lenclass(fs[0]), case["fill"])
    if case["k"] == "write":
        fs = case["files"]
        return "write|{}|{}|{}".format(",".join(kind_of(s) for s in fs) or "none", ",".join(lenclass(s) for s in fs) or "none", case["fill"])
    ch = case["chain"]
    shape = "asc" if ch == sorted(ch) else "desc" if ch == sorted(ch, reverse=True) else "mixed"
    adj = all(b - a == 1 for a, b in zip(ch, ch[1:]))
    cross = any((a < 34) != (b < 34) for a, b in zip(ch, ch[1:]))
    return "read|{}|{}|len{}.{}{}{}|{}".format(case["kind"], case["end"], len(ch), shape, ".adj" if adj and len(ch) > 1 else "",
                                              ".x17" if cross else "", "two" if case["second"] else "one")


def frag_base_image(bi):
    files, specs = [], []
    for i, (kind, slen, chain) in enumerate(FRAG_BASES[bi]):
        h = HDR[kind]
        t, d = KINDS[kind]
        n = slen - h
        data = C.pattern(n, "ramp")
        files.append({"name": "OLD{}".format(i), "ext": "DAT", "type": t, "dtype": d,
                      "stream": dskfs.make_stream(stream_kind(kind), data, 0x1000 + i, 0x2000 + i), "chain": chain})
        specs.append(C.spec("OLD{}".format(i), "DAT", t, d, 0x1000 + i if kind == "ML" else 0, 0x2000 + i if kind == "ML" else 0, n, "ramp"))
    return dskfs.write(files), specs


def build_frag(case):
    from cocoasm.virtualfiles.disk import DiskFile
    img, old = frag_base_image(case["base"])
    order = order_by_name(case["fill"])
    df = DiskFile(buffer=list(img), granule_fill_order=order) if order else DiskFile(buffer=list(img))
    df.add_files([C.to_coco(s) for s in case["files"]])
    return bytes(df.get_buffer()), old + case["files"]


def read_case_image(case):
    kind = case["kind"]
    h = HDR[kind]
    n = case["slen"] - h
    t, d = KINDS[kind]
    data = C.pattern(n, "ramp7")
    files = [{"name": "RD", "ext": "BIN", "type": t, "dtype": d, "stream": dskfs.make_stream(kind.lower() if kind != "BAS" else "basic", data, 0x2000, 0x2010),
              "chain": case["chain"]}]
    specs = [C.spec("RD", "BIN", t, d, 0x2000 if kind == "ML" else 0, 0x2010 if kind == "ML" else 0, n, "ramp7")]
    if case["second"]:
        d2 = C.pattern(2500, "ff")
        files.append({"name": "SECOND", "ext": "BIN", "type": 2, "dtype": 0, "stream": dskfs.make_stream("ml", d2, 0x3000, 0x3000),
                      "chain": case["second"]})
        specs.append(C.spec("SECOND", "BIN", 2, 0, 0x3000, 0x3000, 2500, "ff"))
    return dskfs.write(files, tight=bool(case.get("tight"))), specs


def compare(specs, listed):
    for i, s in enumerate(specs):
        if i >= len(listed):
            return "listing has fewer files", len(specs), len(listed)
        d = C.compare_listed(s, listed[i], "dsk", check_addr=(s["type"] == 2))
        if d:
            return "file differs: " + d[0], "file {} {}: {}".format(i, C.brief(s), d[1]), str(d[2])[:80]
    if len(listed) > len(specs):
        return "listing has extra files", len(specs), len(listed)
    return None


def check_case(case):
    cell = cell_of(case)
    res = {"nontrivial": True, "outcome": "ok"}
    viol = []

    def bad(symptom, expected, observed):
        viol.append({"component": "roundtrip", "cell": cell, "symptom": symptom, "expected": expected, "observed": observed, "input": case})

    if case["k"] == "hist":
        from cocoasm.virtualfiles.disk import DiskFile
        df = DiskFile()
        added, todo = [], list(case["files"])
        try:
            for step, op in enumerate(case["ops"]):
                if op == "H":       # a 40-granule file: the second one does not fit and must be refused
                    f = fspec("ASC", 40 * 2304 - 9, "HUGE{}".format(step), "TXT", pat="ramp7")
                    fits = sum((x["n"] + HDR[kind_of(x)]) // 2304 + 1 for x in added + [f]) <= 68
                    try:
                        df.add_file(C.to_coco(f))
                        if not fits:
                            bad("after {}: a file that does not fit was accepted".format(case["ops"][:step + 1]), "refused", "stored")
                            break
                        added.append(f)
                    except Exception as e:
                        if fits:
                            raise
                elif op == "A" and todo:
                    f = todo.pop(0)
                    df.add_file(C.to_coco(f))
                    added.append(f)
                elif op == "L":
                    d = compare(added, [C.listed_to_dict(x) for x in df.list_files()])
                    if d:
                        bad("after {}: {}".format(case["ops"][:step + 1], d[0]), d[1], d[2])
                        break
        except Exception as e:
            t, w = common._raiser(e)
            bad("history raised {}@{}".format(t, w), "listing", repr(e)[:100])
        res["state"] = "hist:{}:{}".format(case["ops"], zlib.crc32(bytes(df.get_buffer())))
        res["transitions"] = len(case["ops"])
        if viol:
            res["viol"] = viol
        return res
    if case["k"] == "clist":
        import os
        img = b""
        with common.scratch_dir(chdir=False) as d:
            path = os.path.join(d, "d.dsk")
            try:
                img = build_image(case)
                open(path, "wb").write(img)
                status, printed, out = C.cli_list(path)
                if status != 0:
                    bad("file_util --list failed: {}".format(str(status).split()[0]), "exit 0", "{} {}".format(status, out[-100:]))
                else:
                    dd = C.compare_cli(case["files"], printed, "dsk")
                    if dd:
                        bad(*dd)
            except Exception as e:
                t, w = common._raiser(e)
                bad("listing raised {}@{}".format(t, w), "listing", repr(e)[:100])
        res["state"] = "clist:{}".format(zlib.crc32(img))
        if viol:
            res["viol"] = viol
        return res
    try:
        if case["k"] == "write":
            img = build_image(case)
            specs = case["files"]
        elif case["k"] == "frag":
            img, specs = build_frag(case)
        elif case["k"] == "holes":
            img, specs = holes_image(case["layout"])
            assert not dskfs.fsck(img), dskfs.fsck(img)
        else:
            img, specs = read_case_image(case)
            assert not dskfs.fsck(img), dskfs.fsck(img)
    except Exception as e:
        t, w = common._raiser(e)
        bad("writer raised {}@{}".format(t, w), "image", repr(e)[:120])
        res.update(viol=viol, state="writer-error", outcome="writer-error")
        return res
    try:
        with common.watchdog(120):
            listed = list_image(img)
        d = compare(specs, listed)
        if d:
            bad(*d)
    except Exception as e:
        t, w = common._raiser(e)
        bad("reader raised {}@{}".format(t, w), "listing", repr(e)[:120])
    if case["k"] in ("write", "frag"):
        try:
            ref = [{"name": f["name"], "ext": f["ext"], "type": f["type"], "dtype": f["dtype"], "load": f["load"], "exec": f["exec"],
                    "data": f["data"]} for f in dskfs.read_files(img)]
            d = compare(specs, ref)
            if d:
                bad("independent reader: " + d[0], d[1], d[2])
        except dskfs.FsError as e:
            msg = str(e)
            kind = "trailer" if "trailer" in msg else "length" if "stream is" in msg else "header" if "header" in msg else "chain"
            bad("independent reader cannot read the image: " + kind, "readable", msg[:120])
    res["state"] = "{}:{}".format(case["k"], zlib.crc32(img))
    res["outcome"] = "violation" if viol else "roundtrip-ok"
    if viol:
        res["viol"] = viol
    if zlib.crc32(repr(case).encode()) % 257 == 0:
        res["sample"] = {"case": cell, "files": [C.brief(s) for s in specs]}
    return res


def describe(tier):
    return {
        "alphabet": "file kinds ML/BASIC/ASCII/DATA (+ the four other type/flag combinations at 8 lengths) x lengths {} x content patterns x names {} x extensions {} x addresses; "
                    "directories with KILLed ($00) and never-used ($FF) entries before and between live ones (15 layouts); add/list interleavings on ONE DiskFile object; file_util --list (printed name, extension, types, addresses, length) on every list of <= 2 files and every kind; a file added to 6 pre-existing fragmented images (independent writer; chains such as 5>67>20, "
                    "66>0, 67..41 descending) x 6 lengths x 4 fill orders; 12-symbol file "
                    "alphabet for lists; 72 fill orders (default, identity, reverse, 67 rotations, odd-then-even, even-odd descending); read side: "
                    "all ordered chains of length <= 3 over granules {} x stream ends (mid-granule, exact, straddling by -1/+1/+4, two granules) "
                    "x 3 kinds, one and two files".format("0..65535 for ML/BASIC/ASCII" if tier == "thorough" else
                                                         "0,1,2, every length within 10 of k*256 (k<=10) and k*2304 (k<=4) minus the header, 9/18/27 granules, 40000, 65535",
                                                         NAMES, EXTS, CHAIN_SET),
        "bound": "single files over the sweeps; all lists of length 2 over 12 files, length 3 over " + ("all" if tier == "thorough" else "a 5-file core"),
        "oracle": "DiskFile(buffer).list_files() equals the input list (name upper-cased to 8, extension, type, ASCII flag, data; load/exec for "
                  "ML files); the independent reader returns the same files from the written image; independent-writer images are listed exactly",
        "rule": "state = checksum of the image; every case is non-trivial (it writes and lists an image)",
        "assumptions": ["non-ML files have no address fields on disk; they are given address 0 and not compared"],
    }
