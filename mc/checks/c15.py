"""
C15 - disk space accounting is exact: files that fit are stored, others fail cleanly.

BFS over fill histories (add files of k granules, or alternating sizes, until the first failure) on real
DiskFile objects and through VirtualFile append on a real host file, plus synthetic configurations from
the independent writer (F free granules at chosen positions, d live directory entries). Reference
allocator model = multiset arithmetic on the FAT/directory before and after each step.
"""
import itertools
import os
import shutil
import tempfile
import zlib

from .. import common
from .. import containers as C
from ..ref import dskfs
from . import c07

PROP = "C15"
CHUNK = 2


def cases(tier, seed):
    thorough = tier == "thorough"
    for k in range(1, 35):
        yield {"k": "fill", "sizes": [k], "exact": False, "fill": "default", "via": "disk"}
    for k1, k2 in itertools.product(range(1, 7), repeat=2):
        if k1 != k2:
            yield {"k": "fill", "sizes": [k1, k2], "exact": False, "fill": "default", "via": "disk"}
    for k in (1, 2, 3, 7):
        yield {"k": "fill", "sizes": [k], "exact": True, "fill": "default", "via": "disk"}
    orders = [n for n, _ in c07.fill_orders()] if thorough else ["identity", "reverse", "oddeven", "rot1", "rot27", "rot33", "rot34", "rot67", "evenodd-desc"]
    for name in orders:
        for sizes in ([1], [2, 1], [5]):
            yield {"k": "fill", "sizes": sizes, "exact": False, "fill": name, "via": "disk"}
    for sizes in ([1], [3], [4, 1], [17], [34], [35]):
        yield {"k": "fill", "sizes": sizes, "exact": False, "fill": "default", "via": "virtual"}
    # every file kind (different header / trailer sizes) at and around exact granule multiples of the stored stream
    for kind in ("BAS", "DAT", "ASC", "ML"):
        for k in (1, 2, 3):
            for delta in (-2, -1, 0, 1, 2):
                yield {"k": "fill", "sizes": [k], "exact": False, "fill": "default", "via": "disk", "kind": kind, "delta": delta}
    # file names without an extension or with a short one (legal on Disk BASIC; the entry still has its 3 extension bytes)
    for ext in ("", "C", "SH"):
        for via in ("disk", "virtual"):
            for sizes in ([3], [1, 2]):
                yield {"k": "fill", "sizes": sizes, "exact": False, "fill": "default", "via": via, "ext": ext}
    # names that start with a blank, and the blank name a cassette file may carry (stored as eight spaces)
    for nameset in ("blank", "space"):
        for via in ("disk", "virtual"):
            yield {"k": "fill", "sizes": [5], "exact": False, "fill": "default", "via": via, "nameset": nameset}
    # names whose first character is not ASCII ($80, $E9, $A0: a tape may carry any byte in a name); the entry written must still be one
    # live directory entry owning the granules
    for nameset in ("hibit80", "hibitE9", "hibitA0"):
        yield {"k": "fill", "sizes": [5], "exact": False, "fill": "default", "via": "disk", "nameset": nameset}
    # file_util --to_dsk --append onto a disk with F free granules: a batch that fits is stored; a batch of which a LATER file does
    # not fit is refused as a whole - the host image stays as it was
    for skind in ("cas", "dsk"):
        for free_g in (1, 2, 3, 4):
            for sizes in ([1], [1, 1], [1, 2], [2, 1], [1, 1, 2], [3], [1, 3]):
                yield {"k": "xfer", "skind": skind, "free": free_g, "sizes": sizes}
    # batches that carry files without any data (0 = an empty text file, "0ml" = a machine-language file of no bytes): each still takes a
    # directory slot and one granule ("A 0-byte file will always take 1 granule on disk"); only a disk can be the source of such a file
    for free_g in (1, 2, 3):
        for sizes in ([0], ["0ml"], [0, 1], [1, 0], [1, 0, 1], [0, 0], ["0ml", 0, 1]):
            yield {"k": "xfer", "skind": "dsk", "free": free_g, "sizes": sizes}
    # a file whose length does not fit the 16-bit field of its header, offered after `pre` one-granule files: it is stored exactly or
    # refused leaving the image as it was, and the next file that fits is stored
    for kind in ("ML", "BAS", "DATB"):
        for n in (65535, 65536, 70000):
            for pre in (0, 3):
                yield {"k": "toolong", "kind": kind, "n": n, "pre": pre}
    # synthetic configurations
    places = {"lowest": lambda f: list(range(f)), "highest": lambda f: list(range(68 - f, 68)),
              "around27": lambda f: sorted(range(68), key=lambda g: (abs(g - 27), g))[:f],
              "around33": lambda f: sorted(range(68), key=lambda g: (abs(g - 33.5), g))[:f]}
    for f in range(0, 69):
        for pname in places:
            for need in ((1, 2) if not thorough else (1, 2, 3, 5)):
                if need <= f + 1:
                    yield {"k": "synth", "free": sorted(places[pname](f)), "place": pname, "live": 1, "need": need}
    for live in (0, 1, 2, 69, 70, 71, 72):
        for need in (1, 2):
            yield {"k": "synth", "free": list(range(40, 50)), "place": "mid", "live": live, "need": need}
    yield {"k": "synth", "free": list(range(68)), "place": "blank", "live": 0, "need": 68}
    yield {"k": "synth", "free": list(range(68)), "place": "blank", "live": 0, "need": 69}


def needed(stream_len):
    return stream_len // 2304 + 1


def step_check(before, after, s, cell, raised, bad):
    """compare FAT/directory before and after adding file spec s"""
    fb, fa = set(dskfs.free_granules(before)), set(dskfs.free_granules(after)) if after is not None else None
    sb = set(dskfs.free_slots(before))
    st = s["n"] + c07.HDR[c07.kind_of(s)]
    need = needed(st)
    should = need <= len(fb) and len(sb) >= 1
    if raised is not None:
        if should:
            bad(cell, "file that fits was refused", "stored in {} of {} free granules, {} free slots".format(need, len(fb), len(sb)), raised)
        return False
    if not should:
        bad(cell, "file that does not fit was accepted", "error ({} needed, {} free granules, {} free slots)".format(need, len(fb), len(sb)), "stored")
        return True
    used = fb - fa
    if fa - fb:
        bad(cell, "granules were freed by an addition", "none", sorted(fa - fb))
    elif len(used) != need:
        bad(cell, "uses {} granules than needed".format("more" if len(used) > need else "fewer"), need, len(used))
    sa = set(dskfs.free_slots(after))
    if len(sb - sa) != 1 or sa - sb:
        bad(cell, "directory slots consumed != 1", 1, len(sb - sa))
    taken = [g for g in range(68) if before[dskfs.FAT_OFF + g] != 0xFF and before[dskfs.FAT_OFF + g] != after[dskfs.FAT_OFF + g]]
    if taken:
        bad(cell, "FAT entry of an allocated granule changed", "unchanged", taken[:5])
    return True


def check_case(case):
    from cocoasm.virtualfiles.disk import DiskFile
    res = {"nontrivial": True, "outcome": "ok"}
    viol = []

    def bad(cell, symptom, expected, observed):
        viol.append({"component": "alloc", "cell": cell, "symptom": symptom, "expected": str(expected), "observed": str(observed)[:120],
                     "input": case})

    steps = 0
    stored = 0
    if case["k"] == "toolong":
        cell = "toolong|{}|{}|pre{}".format(case["kind"], case["n"], case["pre"])
        df = DiskFile()
        cur = bytes(df.get_buffer())
        seq = [c07.fspec("ML", 2304 - 15, "P{}".format(j)) for j in range(case["pre"])]
        seq.append(c07.fspec(case["kind"], case["n"], "LONG", "DAT"))
        seq += [c07.fspec("ML", 3000, "NEXT"), c07.fspec("ASC", 10, "LAST", "TXT")]
        for s in seq:
            raised = None
            try:
                df.add_file(C.to_coco(s))
            except Exception as e:
                raised = repr(e)[:100]
            new = bytes(df.get_buffer())
            steps += 1
            if s["name"] == "LONG" and s["n"] > 65535:
                # the length cannot be written into the 16-bit field: a refusal is legitimate - and must leave the image as it was;
                # a tool that stores it must account for it exactly
                if raised is not None:
                    if new != cur:
                        probs = dskfs.fsck(new)
                        bad(cell, "image changed by a refused addition", "byte-identical", probs[0][1] if probs else "bytes differ")
                        break
                    continue
            if not step_check(cur, new if raised is None else None, s, cell + "|" + s["name"].rstrip("0123456789"), raised, bad):
                break
            stored += 1
            cur = new
    elif case["k"] == "fill":
        order = c07.order_by_name(case["fill"])
        cell = "fill|{}|{}|{}|{}".format("+".join(map(str, case["sizes"])), "exact" if case["exact"] else "inside", case["fill"], case["via"])
        if "kind" in case:
            cell += "|{}{:+d}".format(case["kind"], case["delta"])
        if "ext" in case:
            cell += "|ext={}".format(case["ext"] or "none")
        if "nameset" in case:
            cell += "|names=" + case["nameset"]
        sizes = itertools.cycle(case["sizes"])
        td = None
        try:
            if case["via"] == "disk":
                df = DiskFile(granule_fill_order=order) if order else DiskFile()
                cur = bytes(df.get_buffer())
            else:
                from cocoasm.virtualfiles.virtual_file import VirtualFile, VirtualFileType
                from cocoasm.virtualfiles.source_file import SourceFile, SourceFileType
                td = common.mkdtemp(prefix="c15_")
                path = os.path.join(td, "t.dsk")
                cur = None
            while steps < 90:
                k = next(sizes)
                n = (k * 2304 - 10) if case["exact"] else (k * 2304 - 10 - 7)
                fname = "F{}".format(steps) if "nameset" not in case else "" if case["nameset"] == "blank" else \
                    "{}F{}".format(chr(int(case["nameset"][5:], 16)), steps) if case["nameset"].startswith("hibit") else " F{}".format(steps)
                s = c07.fspec("ML", n, fname, case.get("ext", "BIN"))
                if "kind" in case:      # stream length = k granules + delta bytes
                    s = c07.fspec(case["kind"], k * 2304 - c07.HDR[case["kind"]] + case["delta"], "F{}".format(steps), "DAT")
                if n > 65535:       # a machine-language file cannot exceed its 16-bit length field; use a headerless file of the same stream length
                    s = c07.fspec("ASC", n + 10, "F{}".format(steps), "TXT")
                raised = None
                if case["via"] == "disk":
                    try:
                        df.add_file(C.to_coco(s))
                        new = bytes(df.get_buffer())
                    except Exception as e:
                        raised = repr(e)[:100]
                        new = None
                    ok = step_check(cur, new, s, cell, raised, bad)
                else:
                    before_bytes = open(path, "rb").read() if os.path.exists(path) else None
                    try:
                        vf = VirtualFile(SourceFile(path, file_type=SourceFileType.BINARY), VirtualFileType.DISK)
                        vf.open_virtual_file()
                        vf.add_coco_file(C.to_coco(s))
                        vf.save_virtual_file(append_mode=True)
                    except Exception as e:
                        raised = repr(e)[:100]
                    after_bytes = open(path, "rb").read() if os.path.exists(path) else None
                    blank = bytes([0xFF]) * dskfs.IMAGE_SIZE
                    if raised is not None:
                        if after_bytes != before_bytes:
                            bad(cell, "host file changed by a failed addition", "byte-identical", "changed")
                        ok = step_check(before_bytes or blank, None, s, cell, raised, bad)
                    else:
                        ok = step_check(before_bytes or blank, after_bytes, s, cell, None, bad)
                        new = after_bytes
                steps += 1
                if raised is not None and not viol and case["via"] == "disk":
                    # a refusal must be clean on the SAME object: nothing of the refused file stays behind, and a file that
                    # still fits is stored afterwards
                    left = bytes(df.get_buffer())
                    if left != cur:
                        probs = dskfs.fsck(left)
                        bad(cell, "image changed by a refused addition", "byte-identical", probs[0][1] if probs else "bytes differ")
                    else:
                        for kind, n in (("ML", 2304 - 10 - 7), ("ASC", 0)):
                            s2 = c07.fspec(kind, n, "AFTER", "BIN" if kind == "ML" else "TXT")
                            raised2 = None
                            try:
                                df.add_file(C.to_coco(s2))
                                new2 = bytes(df.get_buffer())
                            except Exception as e:
                                raised2, new2 = repr(e)[:100], None
                            step_check(left, new2, s2, cell + "|after-refusal", raised2, bad)
                            steps += 1
                            if raised2 is None:
                                left = new2
                if raised is not None or viol:
                    break
                stored += 1
                cur = new
            expect = None
            if len(case["sizes"]) == 1 and not viol and "kind" not in case:
                k = case["sizes"][0] + (1 if case["exact"] else 0)
                expect = 68 // k
                if stored != expect:
                    bad(cell, "disk took {} files than its 68 granules allow".format("more" if stored > expect else "fewer"), expect, stored)
        finally:
            if td:
                shutil.rmtree(td, ignore_errors=True)
        res["state"] = "fill:{}:{}".format(cell, stored)
    elif case["k"] == "xfer":
        from .. import cli
        from ..ref import tape
        cell = "xfer|{}>dsk|free={}|{}".format(case["skind"], case["free"], "+".join(map(str, case["sizes"])))
        td = common.mkdtemp(prefix="c15x_")
        try:
            used = list(range(68 - case["free"]))
            host = dskfs.write([{"name": "OWNER", "ext": "BIN", "type": 1, "dtype": 0xFF, "stream": bytes((len(used) - 1) * 2304 + 5), "chain": used, "slot": 0}])
            tgt = os.path.join(td, "host.dsk")
            open(tgt, "wb").write(host)
            specs = [c07.fspec("ML", k * 2304 - 10 - 9, "N{}".format(i), pat="ramp7") if k not in (0, "0ml") else
                     c07.fspec("ML" if k == "0ml" else "ASC", 0, "N{}".format(i), "BIN") for i, k in enumerate(case["sizes"])]
            gsizes = [k if k not in (0, "0ml") else 1 for k in case["sizes"]]
            src = os.path.join(td, "src." + case["skind"])
            if case["skind"] == "cas":
                open(src, "wb").write(tape.write([dict(name=x["name"], type=2, dtype=0, load=x["load"], exec=x["exec"], data=C.pattern(x["n"], x["pat"])) for x in specs]))
            else:
                g, fl = 0, []
                for x in specs:
                    ml = x["type"] == 2
                    need = (x["n"] + (10 if ml else 0)) // 2304 + 1
                    fl.append({"name": x["name"], "ext": "BIN", "type": x["type"], "dtype": x["dtype"], "chain": list(range(g, g + need)),
                               "stream": dskfs.make_stream("ml", C.pattern(x["n"], x["pat"]), x["load"], x["exec"]) if ml else b""})
                    g += need
                open(src, "wb").write(dskfs.write(fl))
            status, out = cli.file_util(src, to_dsk=tgt, append=True)
            after = open(tgt, "rb").read()
            fits = sum(gsizes) <= case["free"]
            steps = 1
            if fits:
                if status != 0:
                    bad(cell, "a batch that fits was refused", "stored", "{} {}".format(status, out[-100:]))
                else:
                    names = [e["name"].rstrip() for e in dskfs.entries(after)]
                    if names != [b"OWNER"] + [x["name"].encode() for x in specs] or dskfs.fsck(after):
                        bad(cell, "the batch is not on the host image", [x["name"] for x in specs], str(names)[:100])
                    elif len(dskfs.free_granules(after)) != case["free"] - sum(gsizes):
                        bad(cell, "the batch did not take exactly its granules", case["free"] - sum(gsizes), len(dskfs.free_granules(after)))
            else:
                if status == 0 or isinstance(status, str):
                    bad(cell, "a batch that does not fit was not refused", "exit != 0", "{} {}".format(status, out[-80:]))
                if after != host:
                    bad(cell, "host image changed by a refused transfer", "byte-identical",
                        "free granules {} -> {}, entries {}".format(case["free"], len(dskfs.free_granules(after)), len(dskfs.entries(after))))
        finally:
            shutil.rmtree(td, ignore_errors=True)
        res["state"] = "xfer:{}".format(cell)
    else:
        free = set(case["free"])
        used = [g for g in range(68) if g not in free]
        files = []
        live = case["live"]
        # one real file owning all used granules (if any), the other live entries are 0-length placeholders sharing nothing
        img = bytearray(dskfs.write([]))
        if used:
            stream_len = (len(used) - 1) * 2304 + 5
            img = bytearray(dskfs.write([{"name": "OWNER", "ext": "BIN", "type": 1, "dtype": 0xFF, "stream": bytes(stream_len), "chain": used, "slot": 0}]))
        for slot in range(1 if used else 0, live):
            img[dskfs.DIR_OFF + 32 * slot:dskfs.DIR_OFF + 32 * slot + 32] = b"GHOST%03d" % slot + b"BIN" + bytes([1, 0xFF, used[0] if used else 0, 0, 0]) + bytes(16)
        if live == 0 and used:
            img[dskfs.DIR_OFF] = 0x00      # owner entry deleted: slot reusable, granules still allocated
        cell = "synth|{}|free={}|live={}|need={}".format(case["place"], len(free), live, case["need"])
        s = c07.fspec("ML", case["need"] * 2304 - 10 - 7, "NEW")
        if s["n"] > 65535:
            s = c07.fspec("ASC", s["n"] + 10, "NEW", "TXT")
        df = DiskFile(buffer=list(img))
        raised = None
        try:
            df.add_file(C.to_coco(s))
            new = bytes(df.get_buffer())
        except Exception as e:
            raised = repr(e)[:100]
            new = None
        step_check(bytes(img), new, s, cell, raised, bad)
        steps = 1
        res["state"] = "synth:{}:{}".format(cell, raised is None)
    res["transitions"] = max(1, steps)
    if viol:
        res["viol"] = viol[:3]
        res["outcome"] = "violation"
    res["sample"] = {"case": {k: v for k, v in case.items() if k != "free"}, "steps": steps, "stored": stored}
    return res


def describe(tier):
    return {
        "alphabet": "files with a length header of 65,535 / 65,536 / 70,000 bytes (stored exactly, or refused with the image byte-identical and the next files still stored); fill histories: files of k granules (k=1..34), alternating sizes (k1,k2<=6), exact-multiple stream lengths, names without or with a short extension, blank names and names starting with a blank, file_util --to_dsk --append batches onto disks with 1-4 free granules (all-or-nothing), after the first refusal the same object must be unchanged and still take a 1-granule and an empty file if they fit, under " +
                    ("all 72" if tier == "thorough" else "10") + " fill orders, via DiskFile.add_file and via VirtualFile append on a host file; synthetic "
                    "images; files of every kind (ML/BASIC/ASCII/DATA: different header and trailer sizes) whose stored stream is k granules +-0,1,2 bytes; synthetic "
                    "images (independent writer) with F free granules for every F in 0..68 at 4 placements and 0/1/2/69/70/71/72 live directory entries",
        "bound": "every history runs until the first refusal (<= 90 steps)",
        "oracle": "needed = stream//2304 + 1; success iff needed <= free granules and a free slot; on success exactly `needed` previously free "
                  "granules and one previously free slot are consumed and no allocated FAT entry changes; on failure an exception, and the host file is "
                  "byte-identical; a blank disk holds exactly floor(68/k) files of k granules",
        "rule": "state = (history cell, number of files stored); every history is non-trivial",
        "assumptions": ["synthetic ghost directory entries (more live entries than granules) exist only to occupy slots"],
    }
