"""
C16 - file_util conversions carry every selected file across unchanged.

Product enumeration: source image (cassette or disk, file sets of size 0..3 from a 6-file alphabet built
by the independent writers) x target kind x every subset selection via --files in upper/lower/mixed case
(and an absent name), chains cas->dsk->cas and dsk->cas->dsk, --to_bin on 1- and 2-file sources; all
through file_util.main in a private directory, results parsed by the independent readers.
"""
import itertools
import os
import shutil
import tempfile
import zlib

from .. import common, cli
from .. import containers as C
from ..ref import dskfs, tape
from . import c07

PROP = "C16"
CHUNK = 6

FILES = [c07.fspec("ML", 40, "UPPER", pat="ramp7", load=0x3000, exec_=0x3005), c07.fspec("ML", 300, "lower", pat="m00.p1", load=0x0100, exec_=0x0120),
         c07.fspec("BAS", 25, "BASICPG", "BAS"), c07.fspec("ASC", 600, "TEXT", "TXT", pat="55"), c07.fspec("ML", 2295, "EIGHTCHR", pat="ff"),
         c07.fspec("ML", 10, "SP", pat="3c"), c07.fspec("MLA", 33, "MLFLAG", pat="ramp", load=0x4000, exec_=0x4001),
         # a second file with the name of FILES[0] (the same program saved twice on a tape is legal)
         c07.fspec("ML", 55, "UPPER", pat="ramp", load=0x3100, exec_=0x3101),
         # headerless files whose length is a whole number of sectors (the directory's bytes-in-last-sector field is 0), and an empty one
         c07.fspec("ASC", 512, "SECT512", "TXT", pat="ramp7"), c07.fspec("DAT", 256, "SECT256", "DAT", pat="ff"), c07.fspec("ASC", 2304, "GRAN1", "TXT", pat="55"),
         c07.fspec("ML", 30, "V1.2", pat="ramp", load=0x2000, exec_=0x2001),        # a name with a dot in it
         # names that begin or end with a quote character, next to the same name without it
         c07.fspec("ML", 21, "'TIS", pat="ramp", load=0x2100, exec_=0x2101), c07.fspec("ML", 22, "TIS", pat="ramp7", load=0x2200, exec_=0x2201),
         c07.fspec("BAS", 23, '"Q"', "BAS"),
         # addresses at the very top of memory, and a text file with DOS line ends and an end-of-file mark
         c07.fspec("ML", 14, "VECTORS", pat="ramp7", load=0xFFF2, exec_=0xFFFE), c07.fspec("ASC", 300, "DOSTEXT", "TXT", pat="dos"),
         # addresses in the zero page (their shortest hex form has two digits)
         c07.fspec("ML", 12, "LOWPAGE", pat="ramp", load=0x0080, exec_=0x00C8),
         # data and text files that are NOT flagged ASCII (stored with a length preamble on a disk)
         c07.fspec("DATB", 40, "SCORES", "DAT", pat="ramp7"), c07.fspec("TXTB", 41, "NOTES", "TXT", pat="ramp"),
         # machine language whose 5-byte postamble (or preamble + data) straddles a sector boundary on a disk: 5 + n + 5 just past k * 256
         c07.fspec("ML", 248, "STRADDLE", pat="ramp7", load=0x3200, exec_=0x3201), c07.fspec("ML", 2553, "STRADL2", pat="m00.p1", load=0x3300, exec_=0x3301),
         c07.fspec("ML", 251, "SECTEDGE", pat="ramp", load=0x3400, exec_=0x3401)]
DUP = 7


def source_sets(tier):
    for n in (0, 1, 2, 3):
        for tup in itertools.combinations(range(DUP), n):
            if n == 3 and tier != "thorough" and tup not in ((0, 1, 2), (1, 3, 4), (0, 2, 5), (3, 4, 5)):
                continue
            yield list(tup)
    yield [1, 0]
    yield [4, 2, 0]
    # sources on which one name occurs twice
    yield [0, DUP]
    yield [0, DUP, 1]
    yield [0, 1, DUP]
    yield [1, DUP, 0]
    for fs in ([8], [9], [10], [0, 8], [8, 9], [9, 1, 8], [10, 8, 0], [11], [0, 11], [11, 1, 5], [12], [12, 13], [13, 12, 0], [14], [14, 12],
               [15], [0, 15], [16], [16, 1], [17], [17, 0], [18], [19], [18, 0, 19],
               [20], [21], [22], [20, 0], [21, 20, 22]):
        yield fs


def spellings(name, mode):
    if mode == "upper":
        return name.upper()
    if mode == "lower":
        return name.lower()
    return "".join(c.upper() if i % 2 else c.lower() for i, c in enumerate(name))


def cases(tier, seed):
    for skind in ("cas", "dsk"):
        for fset in source_sets(tier):
            for tkind in ("cas", "dsk"):
                yield {"k": "conv", "skind": skind, "files": fset, "tkind": tkind, "sel": None, "mode": None, "absent": False}
                for r in range(1, len(fset) + 1):
                    for sel in itertools.combinations([i for i in fset if i != DUP], r):
                        for mode in ("upper", "lower", "mixed"):
                            yield {"k": "conv", "skind": skind, "files": fset, "tkind": tkind, "sel": list(sel), "mode": mode, "absent": False}
                if fset:
                    yield {"k": "conv", "skind": skind, "files": fset, "tkind": tkind, "sel": [fset[0]], "mode": "upper", "absent": True}
                    yield {"k": "conv", "skind": skind, "files": fset, "tkind": tkind, "sel": [], "mode": "upper", "absent": True}
            if fset and skind == "dsk":
                # a source disk whose directory has KILLed and never-used entries in front of and between the live ones
                for tkind in ("cas", "dsk"):
                    yield {"k": "conv", "skind": "dsk", "files": fset, "tkind": tkind, "sel": None, "mode": None, "absent": False, "holes": True}
                    yield {"k": "conv", "skind": "dsk", "files": fset, "tkind": tkind, "sel": [fset[-1]], "mode": "lower", "absent": False, "holes": True}
            if fset and skind == "dsk" and any(i in (8, 9, 10) for i in fset):
                # a source disk as Disk BASIC writes it: streams that end on a sector / granule boundary have no spare sector or granule
                for tkind in ("cas", "dsk"):
                    yield {"k": "conv", "skind": "dsk", "files": fset, "tkind": tkind, "sel": None, "mode": None, "absent": False, "tight": True}
            if fset and len(fset) <= 2:
                # the source image named through a symbolic link that lives in another directory and whose text is relative to it
                for tkind in ("cas", "dsk"):
                    yield {"k": "conv", "skind": skind, "files": fset, "tkind": tkind, "sel": None, "mode": None, "absent": False, "rellink": True}
            if fset:
                yield {"k": "chain", "skind": skind, "files": fset}
                if skind == "cas":
                    # a source tape recorded with gaps between blocks (gap flag $FF in its name-file blocks)
                    for tkind in ("cas", "dsk"):
                        yield {"k": "conv", "skind": "cas", "files": fset, "tkind": tkind, "sel": None, "mode": None, "absent": False, "gaps": 3}
                        # a source tape whose data blocks are shorter than 255 bytes (legal: any block may carry 1..255 bytes)
                        # names padded with $00 instead of blanks in the name-file block (as some PC-side tape tools write them)
                        yield {"k": "conv", "skind": "cas", "files": fset, "tkind": tkind, "sel": None, "mode": None, "absent": False, "nulpad": True}
                        for mode in ("upper", "lower"):
                            yield {"k": "conv", "skind": "cas", "files": fset, "tkind": tkind, "sel": [fset[0]], "mode": mode, "absent": False, "nulpad": True}
                        for chunk in (128, 7):
                            yield {"k": "conv", "skind": "cas", "files": fset, "tkind": tkind, "sel": None, "mode": None, "absent": False, "chunk": chunk}
            if fset:
                # several outputs asked for in one run: each is what it would have been when asked for alone
                # (--list is not combined: it prints and ends the run by design)
                for outs in [["cas", "dsk"]] + ([["bin", "cas"], ["bin", "dsk"], ["bin", "cas", "dsk"]] if len(fset) == 1 else []):
                    yield {"k": "multi", "skind": skind, "files": fset, "outs": outs, "sel": None}
                    if len(fset) > 1:
                        yield {"k": "multi", "skind": skind, "files": fset, "outs": outs, "sel": [fset[-1]]}
            if len(fset) in (1, 2):
                yield {"k": "bin", "skind": skind, "files": fset, "sel": None}
                yield {"k": "bin", "skind": skind, "files": fset, "sel": [fset[0]]}


HOLE_SLOTS = [1, 3, 4, 7, 9]


def write_source(path, kind, fset, gaps=None, holes=False, chunk=255, nulpad=False, tight=False):
    specs = [FILES[i] for i in fset]
    if kind == "cas":
        b = tape.write([dict(name=s["name"] if not nulpad else s["name"][:8].ljust(8, "\0"), type=s["type"], dtype=s["dtype"], load=s["load"], exec=s["exec"], data=C.pattern(s["n"], s["pat"])) for s in specs],
                       gap=gaps, chunk=chunk)
    else:
        fl = []
        g = 33
        for s in specs:
            k = c07.kind_of(s)
            stream = dskfs.make_stream(c07.stream_kind(k), C.pattern(s["n"], s["pat"]), s["load"], s["exec"])
            need = len(stream) // 2304 + 1
            if tight and stream and len(stream) % 256 == 0:
                need = (len(stream) + 2303) // 2304
            chain = list(range(g, g + need))
            if len(fl) % 2:                      # every second file on a descending chain, the first one across the directory track
                chain = chain[::-1]
            fl.append({"name": s["name"], "ext": s["ext"], "type": s["type"], "dtype": s["dtype"], "stream": stream, "chain": chain})
            if holes:       # KILLed entries in slots 0, 2 and 5, never-used ones elsewhere, live files in between
                fl[-1]["slot"] = HOLE_SLOTS[len(fl) - 1]
            g += need + 1
        b = dskfs.write(fl, killed=(0, 2, 5) if holes else (), tight=tight)
    open(path, "wb").write(b)
    return specs


def read_image(path, kind):
    b = open(path, "rb").read()
    if kind == "cas":
        return [{"name": f["name"].decode("latin1"), "ext": "", "type": f["type"], "dtype": f["dtype"], "load": f["a1"], "exec": f["a2"], "data": f["data"]}
                for f in tape.parse(b)]
    probs = dskfs.fsck(b)
    if probs:
        raise dskfs.FsError("fsck: {} {}".format(*probs[0]))
    return dskfs.read_files(b)


def compare(specs, listed, skind, tkind):
    for i, s in enumerate(specs):
        if i >= len(listed):
            return "target has fewer files", len(specs), len(listed)
        # a disk has no address fields for non-ML files: once a file has been on a disk those are gone
        check_addr = s["type"] == 2 or (skind == "cas" and tkind == "cas")
        d = C.compare_listed(s, listed[i], "cas", check_addr=check_addr)
        if d:
            return "file differs: " + d[0], "{}: {}".format(C.brief(s), d[1]), str(d[2])[:60]
    if len(listed) > len(specs):
        return "target has extra files", [s["name"] for s in specs], [f["name"] for f in listed]
    return None


def check_case(case):
    td = common.mkdtemp(prefix="c16_")
    cwd = os.getcwd()
    res = {"nontrivial": True, "outcome": "ok"}
    viol = []
    names = ",".join(FILES[i]["name"] for i in case["files"]) or "none"
    if case["k"] == "conv":
        sel = "all" if case["sel"] is None else (",".join(FILES[i]["name"] for i in case["sel"]) + ("+absent" if case["absent"] else "")) or "absent-only"
        cell = "conv|{}{}>{}|{}|sel={}|{}".format(case["skind"], ".gaps" if case.get("gaps") else ".holes" if case.get("holes") else ".chunk{}".format(case["chunk"]) if case.get("chunk") else ".nulpad" if case.get("nulpad") else ".tight" if case.get("tight") else ".rellink" if case.get("rellink") else "", case["tkind"], names, sel, case["mode"] or "-")
    elif case["k"] == "chain":
        cell = "chain|{}|{}".format(case["skind"], names)
    elif case["k"] == "multi":
        cell = "multi|{}>{}|{}|{}".format(case["skind"], "+".join(case["outs"]), names, "all" if case["sel"] is None else "sel")
    else:
        cell = "bin|{}|{}|{}".format(case["skind"], names, "all" if case["sel"] is None else "sel")

    def bad(symptom, expected, observed):
        viol.append({"component": "convert", "cell": cell, "symptom": symptom, "expected": str(expected)[:160], "observed": str(observed)[:160],
                     "input": case})

    steps = 1
    try:
        os.chdir(td)
        src = "src." + case["skind"]
        if case.get("rellink"):
            os.makedirs("images", exist_ok=True)
            os.symlink("real." + case["skind"], "images/current." + case["skind"])
            src = "images/current." + case["skind"]
        specs = write_source(src if not case.get("rellink") else "images/real." + case["skind"], case["skind"], case["files"], case.get("gaps"), case.get("holes", False), case.get("chunk", 255), case.get("nulpad", False), case.get("tight", False))
        if case["k"] == "conv":
            tgt = "tgt." + case["tkind"]
            files_arg = None
            want = specs
            if case["sel"] is not None:
                files_arg = [spellings(FILES[i]["name"], case["mode"]) for i in case["sel"]] + (["NOSUCH"] if case["absent"] else [])
                chosen = {FILES[i]["name"].upper() for i in case["sel"]}
                want = [s for s in specs if s["name"].upper() in chosen]
            status, out = cli.file_util(src, **{"to_" + case["tkind"]: tgt, "files": files_arg})
            if isinstance(status, str) or status != 0:
                bad("conversion failed: {}".format(str(status).split()[0]), "exit 0", "{} {}".format(status, out[-120:]))
            elif not os.path.exists(tgt):
                if want:
                    bad("no target written", tgt, out[-100:])
            else:
                try:
                    d = compare(want, read_image(tgt, case["tkind"]), case["skind"], case["tkind"])
                    if d:
                        bad(*d)
                except (tape.TapeError, dskfs.FsError) as e:
                    bad("target image malformed", "well-formed", str(e))
        elif case["k"] == "multi":
            want = specs if case["sel"] is None else [x for x in specs if x["name"].upper() in {FILES[i]["name"].upper() for i in case["sel"]}]
            files_arg = None if case["sel"] is None else [FILES[i]["name"].lower() for i in case["sel"]]
            kw = {"to_" + o: "tgt." + o for o in case["outs"] if o != "list"}
            status, out = cli.file_util(src, files=files_arg, list_="list" in case["outs"], **kw)
            if isinstance(status, str) or status != 0:
                bad("run with several outputs failed: {}".format(str(status).split()[0]), "exit 0", "{} {}".format(status, out[-120:]))
            else:
                for o in case["outs"]:
                    if o == "list":
                        if out.count("-- File #") < len(want if case["sel"] is not None else specs):
                            bad("--list prints fewer files when other outputs are asked for too", len(specs), out.count("-- File #"))
                    elif not os.path.exists("tgt." + o):
                        bad("no --to_{} target written when other outputs are asked for too".format(o), "tgt." + o, out[-100:])
                    elif o == "bin":
                        if open("tgt.bin", "rb").read() != C.pattern(want[0]["n"], want[0]["pat"]):
                            bad("--to_bin data differs when other outputs are asked for too", "{} bytes".format(want[0]["n"]), "{} bytes".format(os.path.getsize("tgt.bin")))
                    else:
                        try:
                            d = compare(want, read_image("tgt." + o, o), case["skind"], o)
                            if d:
                                bad("--to_{} with other outputs in the same run: {}".format(o, d[0]), d[1], d[2])
                        except (tape.TapeError, dskfs.FsError) as e:
                            bad("--to_{} target malformed when other outputs are asked for too".format(o), "well-formed", str(e))
        elif case["k"] == "chain":
            a, b = ("dsk", "cas") if case["skind"] == "cas" else ("cas", "dsk")
            s1, o1 = cli.file_util(src, **{"to_" + a: "mid." + a})
            s2, o2 = cli.file_util("mid." + a, **{"to_" + b: "end." + b}) if s1 == 0 else (None, "")
            steps = 2
            if s1 != 0 or s2 != 0:
                bad("chain conversion failed", "exit 0, 0", "{} {} {}".format(s1, s2, (o1 + o2)[-100:]))
            else:
                try:
                    d = compare(specs, read_image("end." + b, b), "dsk", b)
                    if d:
                        bad("after {}>{}>{}: {}".format(case["skind"], a, b, d[0]), d[1], d[2])
                except (tape.TapeError, dskfs.FsError) as e:
                    bad("chain end image malformed", "well-formed", str(e))
        else:
            files_arg = None if case["sel"] is None else [FILES[i]["name"].upper() for i in case["sel"]]
            status, out = cli.file_util(src, to_bin="out.bin", files=files_arg)
            exists = os.path.exists("out.bin")
            if len(specs) > 1:
                if status == 0 or isinstance(status, str):
                    bad("--to_bin on a multi-file image did not refuse", "exit != 0", status)
                if exists:
                    bad("--to_bin on a multi-file image wrote a file", "no file", "out.bin")
            else:
                if status != 0:
                    bad("--to_bin failed", "exit 0", "{} {}".format(status, out[-100:]))
                elif not exists or open("out.bin", "rb").read() != C.pattern(specs[0]["n"], specs[0]["pat"]):
                    bad("--to_bin output is not the file's data", "{} bytes".format(specs[0]["n"]), "differs" if exists else "missing")
    finally:
        os.chdir(cwd)
        shutil.rmtree(td, ignore_errors=True)
    res["transitions"] = steps
    res["state"] = cell
    if viol:
        res["viol"] = viol[:2]
        res["outcome"] = "violation"
    if zlib.crc32(cell.encode()) % 199 == 0:
        res["sample"] = {"cell": cell}
    return res


def describe(tier):
    return {
        "alphabet": "source images written by the independent writers (cassette and disk) holding every subset of size <= 2 (" +
                    ("and every subset of size 3" if tier == "thorough" else "4 subsets of size 3") + ") of {} plus two reordered sets and four sets on which one name occurs twice; target kind cas/dsk; "
                    "disk sources on descending and track-17-crossing chains, and with KILLed / never-used directory entries before and between the files; cassette sources recorded with gaps (gap flag $FF) and with 128- and 7-byte data blocks, and with names padded with $00; "
                    "--files = every non-empty subset of the names in upper/lower/mixed case, with an absent name, and only an absent name; chains "
                    "cas>dsk>cas and dsk>cas>dsk; --to_bin on 1- and 2-file sources; machine-language files whose 5-byte trailer crosses a sector boundary on a disk (248, 2553, 251 bytes)".format([C.brief(f) for f in FILES]),
        "bound": "single conversions and chains of two",
        "oracle": "target parsed by the independent reader lists exactly the selected files in source order with identical type, flag, data and "
                  "(ML files) addresses; chain end = chain start; --to_bin = data bytes; more than one file => non-zero exit and no file",
        "rule": "state = case cell; every case non-trivial",
        "assumptions": ["non-ML files lose their address fields on a disk (no such fields exist)"],
    }
