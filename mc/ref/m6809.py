"""
MC6809 reference: datasheet opcode map (from /verif/ref_data/mc6809_opcodes.tsv, transcribed
independently of the repository), an instruction DEcoder, and the README-grammar intent model.

The decoder is deliberately the opposite shape of the code under test (bytes -> meaning), so a wrong
table entry or a wrong post-byte in the assembler cannot be mirrored here by construction.
"""
import os

_HERE = os.path.dirname(os.path.abspath(__file__))
TSV = os.path.join(os.path.dirname(os.path.dirname(_HERE)), "ref_data", "mc6809_opcodes.tsv")

OPC = {}        # opcode(int, page-prefixed) -> (mnemonics tuple, mode, base length)
MNEM = {}       # mnemonic -> {mode: opcode}


def _load():
    for ln in open(TSV):
        if ln.startswith("#") or not ln.strip():
            continue
        op, names, mode, length = ln.rstrip("\n").split("\t")
        op = int(op, 16)
        names = tuple(names.split("/"))
        OPC[op] = (names, mode, int(length))
        for n in names:
            MNEM.setdefault(n, {})[mode] = op


_load()

ALL_MNEMONICS = sorted(MNEM)
IDX_REGS = "XYUS"
PAIR_CODE = {"D": 0, "X": 1, "Y": 2, "U": 3, "S": 4, "PC": 5, "A": 8, "B": 9, "CC": 10, "DP": 11}
PAIR_NAME = {v: k for k, v in PAIR_CODE.items()}
LIST_BITS = {"CC": 0x01, "A": 0x02, "B": 0x04, "DP": 0x08, "X": 0x10, "Y": 0x20, "PC": 0x80}
ALIAS_CLASS = {}
for _names, _m, _l in OPC.values():
    for _n in _names:
        ALIAS_CLASS.setdefault(_n, set()).update(_names)


class Illegal(Exception):
    pass


def sext(v, bits):
    v &= (1 << bits) - 1
    return v - (1 << bits) if v >> (bits - 1) else v


def decode(b, pc=0, dp=0):
    """Decode ONE instruction at the start of b. Returns a record; raises Illegal."""
    n = len(b)
    if n == 0:
        raise Illegal("no bytes")
    i = 1
    op = b[0]
    if op in (0x10, 0x11):
        if n < 2:
            raise Illegal("truncated after page prefix")
        op = (op << 8) | b[1]
        i = 2
    ent = OPC.get(op)
    if ent is None:
        raise Illegal("undefined opcode {:X}".format(op))
    names, mode, base = ent
    rec = {"mnems": names, "mode": mode, "opcode": op}

    def need(k):
        if n < i + k:
            raise Illegal("truncated: {} needs {} more byte(s)".format(mode, i + k - n))

    if mode == "INH":
        rec["key"] = ("inh",)
    elif mode == "IMM8":
        need(1)
        rec["imm"] = b[i]
        rec["key"] = ("imm", 8, b[i])
        i += 1
    elif mode == "IMM16":
        need(2)
        v = (b[i] << 8) | b[i + 1]
        rec["imm"] = v
        rec["key"] = ("imm", 16, v)
        i += 2
    elif mode == "DIR":
        need(1)
        rec["addr"] = (dp << 8) | b[i]
        rec["key"] = ("mem", rec["addr"])
        i += 1
    elif mode == "EXT":
        need(2)
        rec["addr"] = (b[i] << 8) | b[i + 1]
        rec["key"] = ("mem", rec["addr"])
        i += 2
    elif mode == "REL8":
        need(1)
        d = sext(b[i], 8)
        i += 1
        rec["disp"] = d
        rec["target"] = (pc + i + d) & 0xFFFF
        rec["key"] = ("rel", rec["target"])
    elif mode == "REL16":
        need(2)
        d = sext((b[i] << 8) | b[i + 1], 16)
        i += 2
        rec["disp"] = d
        rec["target"] = (pc + i + d) & 0xFFFF
        rec["key"] = ("rel", rec["target"])
    elif mode == "REGPAIR":
        need(1)
        pb = b[i]
        i += 1
        r1, r2 = PAIR_NAME.get(pb >> 4), PAIR_NAME.get(pb & 15)
        if r1 is None or r2 is None:
            raise Illegal("undefined register code in post-byte {:02X}".format(pb))
        if ((pb >> 4) >= 8) != ((pb & 15) >= 8):
            raise Illegal("register size mismatch in post-byte {:02X}".format(pb))
        rec["pair"] = (r1, r2)
        rec["key"] = ("pair", r1, r2)
    elif mode == "REGLIST":
        need(1)
        rec["mask"] = b[i]
        rec["key"] = ("list", b[i])
        i += 1
    elif mode == "IDX":
        need(1)
        pb = b[i]
        i += 1
        rec["postbyte"] = pb
        reg = IDX_REGS[(pb >> 5) & 3]
        if not pb & 0x80:
            off = sext(pb & 0x1F, 5)
            rec.update(sub="off", reg=reg, indirect=False, offset=off, width=5)
            rec["key"] = ("idx", "off", reg, False, off & 0xFFFF)
        else:
            ind = bool(pb & 0x10)
            low = pb & 0x0F
            if low == 0x0F:
                if pb != 0x9F:
                    raise Illegal("illegal indexed post-byte {:02X}".format(pb))
                need(2)
                a = (b[i] << 8) | b[i + 1]
                i += 2
                rec.update(sub="extind", indirect=True, addr=a)
                rec["key"] = ("idx", "extind", a)
            elif low in (0, 1, 2, 3):
                if ind and low in (0, 2):
                    raise Illegal("indirect with single auto inc/dec, post-byte {:02X}".format(pb))
                sub = ("inc1", "inc2", "dec1", "dec2")[low]
                rec.update(sub=sub, reg=reg, indirect=ind)
                rec["key"] = ("idx", sub, reg, ind)
            elif low == 4:
                rec.update(sub="off", reg=reg, indirect=ind, offset=0, width=0)
                rec["key"] = ("idx", "off", reg, ind, 0)
            elif low in (5, 6, 0xB):
                acc = {5: "B", 6: "A", 0xB: "D"}[low]
                rec.update(sub="acc", reg=reg, indirect=ind, acc=acc)
                rec["key"] = ("idx", "acc", acc, reg, ind)
            elif low == 8:
                need(1)
                off = sext(b[i], 8)
                i += 1
                rec.update(sub="off", reg=reg, indirect=ind, offset=off, width=8)
                rec["key"] = ("idx", "off", reg, ind, off & 0xFFFF)
            elif low == 9:
                need(2)
                off = sext((b[i] << 8) | b[i + 1], 16)
                i += 2
                rec.update(sub="off", reg=reg, indirect=ind, offset=off, width=16)
                rec["key"] = ("idx", "off", reg, ind, off & 0xFFFF)
            elif low == 0xC:
                need(1)
                d = sext(b[i], 8)
                i += 1
                rec.update(sub="pcr", indirect=ind, disp=d, width=8, target=(pc + i + d) & 0xFFFF)
                rec["key"] = ("idx", "pcr", ind, d & 0xFFFF)
            elif low == 0xD:
                need(2)
                d = sext((b[i] << 8) | b[i + 1], 16)
                i += 2
                rec.update(sub="pcr", indirect=ind, disp=d, width=16, target=(pc + i + d) & 0xFFFF)
                rec["key"] = ("idx", "pcr", ind, d & 0xFFFF)
            else:
                raise Illegal("illegal indexed post-byte {:02X}".format(pb))
    else:
        raise AssertionError(mode)
    rec["len"] = i
    return rec


def decode_all(b, pc=0):
    """Decode a byte string as a sequence of instructions; -> list of records (raises Illegal)."""
    out = []
    i = 0
    while i < len(b):
        r = decode(b[i:], pc + i)
        out.append(r)
        i += r["len"]
    return out


# --------------------------------------------------------------------------------------
# intent model: what a source statement MEANS (README grammar + datasheet), independent of bytes


def has_mode(mnem, mode):
    return mode in MNEM.get(mnem, {})


def imm_width(mnem):
    m = MNEM.get(mnem, {})
    if "IMM8" in m:
        return 8
    if "IMM16" in m:
        return 16
    return None


def spell(v, style):
    """Render integer v in a spelling; None if the spelling cannot express v."""
    if style == "dec":
        return str(v)
    if v < 0:
        return None
    if style == "hex":
        return "${:X}".format(v)
    if style == "hex2":
        return "${:02X}".format(v) if v < 256 else None
    if style == "hex4":
        return "${:04X}".format(v)
    if style == "hexl":
        return "${:x}".format(v)
    if style == "bin8":
        return "%{:08b}".format(v) if v < 256 else None
    if style == "bin16":
        return "%{:016b}".format(v)
    if style == "chr":
        c = chr(v) if 0 <= v < 128 else ""
        return "'" + c if (c.isalnum()) else None
    raise ValueError(style)


SPELLINGS = ["dec", "hex", "hex2", "hex4", "bin8", "bin16", "chr"]


def render(intent, valtext=None):
    """intent -> operand text. intent = dict(form=..., ...); valtext overrides the value spelling."""
    f = intent["form"]
    v = valtext if valtext is not None else (str(intent["value"]) if "value" in intent else None)
    if f == "inh":
        return ""
    if f == "imm":
        return "#" + v
    if f == "addr":
        return v
    if f == "dir":
        return "<" + v
    if f == "ext":
        return ">" + v
    if f == "extind":
        return "[" + v + "]"
    if f == "idx":
        sub, r = intent["sub"], intent["reg"]
        if sub == "zero":
            s = "," + r
        elif sub == "off":
            s = v + "," + r
        elif sub == "acc":
            s = intent["acc"] + "," + r
        elif sub == "inc1":
            s = "," + r + "+"
        elif sub == "inc2":
            s = "," + r + "++"
        elif sub == "dec1":
            s = ",-" + r
        elif sub == "dec2":
            s = ",--" + r
        else:
            raise ValueError(sub)
        return "[" + s + "]" if intent.get("indirect") else s
    if f == "pcr":
        s = v + ",PCR"
        return "[" + s + "]" if intent.get("indirect") else s
    if f == "reglist":
        return ",".join(intent["regs"])
    if f == "regpair":
        return intent["regs"][0] + "," + intent["regs"][1]
    if f == "rel":
        return v
    raise ValueError(f)


def classify(mnem, intent):
    """
    -> ("valid", acceptor) | ("reject", reason) | ("open", reason)
    acceptor(rec) -> None if the decoded record means what the intent says, else a reason string.
    'valid'  : core-valid, must be accepted (C01) and decode to the intent.
    'reject' : must be rejected (C12): mode absent, register not in the form's set, value out of range.
    'open'   : documentation leaves it open.
    """
    f = intent["form"]
    modes = MNEM.get(mnem)
    if modes is None:
        return ("reject", "unknown mnemonic")
    v = intent.get("value")
    if f == "divzero":
        return ("reject", "division by zero")
    if f == "nomode":
        return ("reject", "mode: " + intent["why"])
    if f == "rel":
        # a branch whose target is label+-n: the displacement from the end of the branch must fit the field (C03/C12);
        # numeric or EQU targets are left open. intent carries "at" (address of the branch statement) when the harness knows the layout.
        if intent.get("label_based") and intent.get("at") is not None:
            short = "REL8" in modes
            size = OPC[modes["REL8" if short else "REL16"]][2]
            d = intent["value"] - (intent["at"] + size)
            if short and not -128 <= d <= 127:
                return ("reject", "range: short branch displacement {} does not fit 8 bits".format(d))
        return ("open", "branch target")

    if f == "inh":
        if "INH" not in modes:
            return ("reject", "mode: no inherent form")
        return ("valid", lambda rec: None if rec["mode"] == "INH" else "not inherent")
    if f == "imm":
        w = imm_width(mnem)
        if w is None:
            return ("reject", "mode: no immediate form")
        lo, hi = (-128, 255) if w == 8 else (-32768, 65535)
        if not lo <= v <= hi:
            return ("reject", "range: immediate does not fit {} bits".format(w))
        want = ("imm", w, v & ((1 << w) - 1))
        return ("valid", lambda rec: None if rec["key"] == want else "decodes to {} not {}".format(rec["key"], want))
    if f in ("addr", "ext", "extind") and isinstance(v, int) and -32768 <= v < 0:
        v = v & 0xFFFF          # a negative address is the 16-bit two's complement address it stands for
    if f in ("addr", "dir", "ext"):
        if "DIR" not in modes and "EXT" not in modes:
            return ("reject", "mode: no direct/extended form")
        if f == "dir" and isinstance(v, int) and -128 <= v < 0 and "DIR" in modes:
            # <-n: whether a forced-direct operand may be negative is left open, but an assembler that accepts it has only one
            # byte to put it in - the two's complement of the value, as for every other 8-bit field
            want_b = v & 0xFF
            return ("open", lambda rec: None if rec["mode"] == "DIR" and rec["key"] == ("mem", want_b) else
                    "forced direct {} encoded as {} {}".format(v, rec["mode"], rec.get("key")))
        if not 0 <= v <= 65535:
            return ("reject", "range: address outside 0..65535") if v > 65535 or v < -32768 else ("open", "negative address")
        if f == "dir":
            if v > 255:
                return ("reject", "range: forced direct operand above $FF")

            def acc_dir(rec):
                if rec["mode"] != "DIR":
                    return "forced direct encoded as " + rec["mode"]
                return None if rec["key"] == ("mem", v) else "address {} not {}".format(rec["key"], v)
            return ("valid", acc_dir)
        if f == "ext":
            def acc_ext(rec):
                if rec["mode"] != "EXT":
                    return "forced extended encoded as " + rec["mode"]
                return None if rec["key"] == ("mem", v) else "address {} not {}".format(rec["key"], v)
            return ("valid", acc_ext)

        def acc_addr(rec):
            if rec["mode"] not in ("DIR", "EXT"):
                return "address operand encoded as " + rec["mode"]
            return None if rec["key"] == ("mem", v) else "address {} not {}".format(rec["key"], v)
        return ("valid", acc_addr)
    if f == "extind":
        if "IDX" not in modes:
            return ("reject", "mode: no indexed form")
        if not 0 <= v <= 65535:
            return ("reject", "range: address outside 0..65535") if v > 65535 or v < -32768 else ("open", "negative address")
        want = ("idx", "extind", v)
        return ("valid", lambda rec: None if rec.get("key") == want else "decodes to {} not {}".format(rec.get("key"), want))
    if f == "idx":
        if "IDX" not in modes:
            return ("reject", "mode: no indexed form")
        r = intent["reg"]
        if r not in ("X", "Y", "U", "S"):
            return ("reject", "register: {} is not an index register".format(r))
        sub = intent["sub"]
        ind = bool(intent.get("indirect"))
        if sub in ("inc1", "dec1") and ind:
            return ("reject", "mode: indirect single auto inc/dec")
        if sub == "zero":
            want = ("idx", "off", r, ind, 0)
        elif sub == "off":
            if not -32768 <= v <= 65535:
                return ("reject", "range: offset outside 16 bits")
            want = ("idx", "off", r, ind, v & 0xFFFF)
        elif sub == "acc":
            if intent["acc"] not in ("A", "B", "D"):
                return ("reject", "register: bad accumulator offset")
            want = ("idx", "acc", intent["acc"], r, ind)
        else:
            want = ("idx", sub, r, ind)
        return ("valid", lambda rec: None if rec.get("key") == want else "decodes to {} not {}".format(rec.get("key"), want))
    if f == "pcr":
        if "IDX" not in modes:
            return ("reject", "mode: no indexed form")
        if not -32768 <= v <= 65535:
            return ("reject", "range: offset outside 16 bits")
        ind = bool(intent.get("indirect"))
        want = ("idx", "pcr", ind, v & 0xFFFF)
        return ("valid", lambda rec: None if rec.get("key") == want else "decodes to {} not {}".format(rec.get("key"), want))
    if f == "reglist":
        if "REGLIST" not in modes:
            return ("reject", "mode: not a push/pull instruction")
        other = "S" if mnem in ("PSHU", "PULU") else "U"
        mask = 0
        if not intent["regs"]:
            return ("reject", "register: empty list")
        for r in intent["regs"]:
            if r == "D":
                mask |= 0x06
            elif r == other:
                mask |= 0x40
            elif r in LIST_BITS:
                mask |= LIST_BITS[r]
            else:
                return ("reject", "register: {} not pushable by {}".format(r, mnem))
        if len(set(intent["regs"])) != len(intent["regs"]):
            return ("open", "duplicate register in list")
        want = ("list", mask)
        return ("valid", lambda rec: None if rec.get("key") == want else "decodes to {} not {}".format(rec.get("key"), want))
    if f == "regpair":
        if "REGPAIR" not in modes:
            return ("reject", "mode: not TFR/EXG")
        r1, r2 = intent["regs"]
        if r1 not in PAIR_CODE or r2 not in PAIR_CODE:
            return ("reject", "register: unknown register")
        if (PAIR_CODE[r1] >= 8) != (PAIR_CODE[r2] >= 8):
            return ("reject", "register: size mismatch")
        want = ("pair", r1, r2)
        return ("valid", lambda rec: None if rec.get("key") == want else "decodes to {} not {}".format(rec.get("key"), want))
    return ("open", "form " + f)


def check_statement_bytes(mnem, b, pc=0):
    """
    DESIGN 4.4: bytes accepted for a statement of `mnem` must be exactly one complete instruction of
    that mnemonic (alias class). -> (rec, None) or (None, reason)
    """
    try:
        rec = decode(b, pc)
    except Illegal as e:
        return None, "undecodable: " + str(e)
    if rec["len"] != len(b):
        return None, "{} trailing byte(s) after one {} instruction".format(len(b) - rec["len"], "/".join(rec["mnems"]))
    if mnem not in rec["mnems"]:
        return None, "decodes as {} not {}".format("/".join(rec["mnems"]), mnem)
    return rec, None


# --------------------------------------------------------------------------------------
# operand text -> intent (DESIGN appendix D); used to decide which accepted texts MUST have been rejected

import re as _re

_IDENT = _re.compile(r"^[A-Za-z][A-Za-z0-9@]*$")
_REGNAMES = {"A", "B", "D", "X", "Y", "U", "S", "PC", "CC", "DP", "PCR"}


def parse_number(t):
    if _re.match(r"^\d+$", t):
        return int(t)
    if _re.match(r"^-\d+$", t):
        return int(t)
    m = _re.match(r"^\$([0-9A-Fa-f]{1,4})$", t)
    if m:
        return int(m.group(1), 16)
    m = _re.match(r"^%([01]{8}|[01]{16})$", t)
    if m:
        return int(m.group(1), 2)
    m = _re.match(r"^'([A-Za-z0-9])$", t)
    if m:
        return ord(m.group(1))
    return None


def parse_term(t, symvals):
    v = parse_number(t)
    if v is not None:
        return v
    if _IDENT.match(t) and t not in _REGNAMES and t in symvals:
        return symvals[t]
    return None


class DivZero(Exception):
    pass


def parse_expr(t, symvals):
    """-> (value, nterms) or None; raises DivZero"""
    v = parse_term(t, symvals)
    if v is not None:
        return v, 1
    for i in range(1, len(t) - 1):
        if t[i] in "+-*/":
            a = parse_term(t[:i], symvals)
            b = parse_term(t[i + 1:], symvals)
            if a is not None and b is not None:
                op = t[i]
                if op == "+":
                    return a + b, 2
                if op == "-":
                    return a - b, 2
                if op == "*":
                    return a * b, 2
                if b == 0:
                    raise DivZero()
                q = abs(a) // abs(b)
                return (q if (a >= 0) == (b >= 0) else -q), 2
    return None


def parse_operand(mnem, text, symvals):
    """-> intent dict | None (not parseable under the documented grammar / form left open)"""
    modes = MNEM.get(mnem)
    if modes is None:
        return None
    try:
        if "REGLIST" in modes:
            regs = text.split(",")
            if text and all(_IDENT.match(r) for r in regs):
                return {"form": "reglist", "regs": regs}
            return None
        if "REGPAIR" in modes:
            regs = text.split(",")
            if len(regs) == 2 and all(_IDENT.match(r) for r in regs):
                return {"form": "regpair", "regs": regs}
            return None
        if "REL8" in modes or "REL16" in modes:
            if text[:1] in ("#", "<", ">") and parse_expr(text[1:], symvals):
                return {"form": "nomode", "why": "addressing-mode prefix on a branch target"}
            e = parse_expr(text, symvals) if text else None
            if not e:
                return None
            label_based = bool(_re.match(r"^(L([+-](\d+|\$[0-9A-Fa-f]{1,4}))?|(\d+|\$[0-9A-Fa-f]{1,4})\+L)$", text))
            return {"form": "rel", "value": e[0], "nterms": e[1], "label_based": label_based, "at": symvals.get("@stmt")}
        if text == "":
            return {"form": "inh"}
        if text[0] == "#":
            e = parse_expr(text[1:], symvals)
            if not e and "," in text and _re.match(r"^#[^,\[\]#<>]*,(--?)?[XYUS](\+\+?)?$|^#[^,\[\]#<>]*,PCR$", text):
                return {"form": "nomode", "why": "immediate sign on an indexed operand"}
            return {"form": "imm", "value": e[0], "nterms": e[1]} if e else None
        if text[0] in "<>":
            e = parse_expr(text[1:], symvals)
            return {"form": "dir" if text[0] == "<" else "ext", "value": e[0], "nterms": e[1]} if e else None
        ind = False
        inner = text
        if text[0] == "[":
            if not text.endswith("]") or len(text) < 3:
                return None
            inner = text[1:-1]
            ind = True
            if inner[:1] == "#":
                rest = inner[1:]
                if parse_expr(rest, symvals) or _re.match(r"^[^,\[\]#<>]+,((--?)?[XYUS](\+\+?)?|PCR)$", rest):
                    return {"form": "nomode", "why": "immediate sign inside brackets"}
                return None
            if "," not in inner:
                e = parse_expr(inner, symvals)
                return {"form": "extind", "value": e[0], "nterms": e[1]} if e else None
        if "," in inner:
            if inner.count(",") != 1:
                return None
            left, right = inner.split(",")
            odd = _re.match(r"^(-*)[XYUS](\+*)$", right)
            if odd and ((odd.group(1) and odd.group(2)) or len(odd.group(1)) > 2 or len(odd.group(2)) > 2) and \
                    (left == "" or left in ("A", "B", "D") or parse_expr(left, symvals)):
                # ,-X+  ,--Y++  ,X+++  ,---S: the 6809 steps an index register before OR after the access, by one or two
                return {"form": "nomode", "why": "no such auto increment/decrement"}
            m = _re.match(r"^(--|-)?([A-Za-z][A-Za-z0-9]*)(\+\+|\+)?$", right)
            if not m:
                return None
            pre, reg, post = m.group(1), m.group(2), m.group(3)
            if pre and post:
                return None
            if pre or post:
                if left != "":
                    # an offset (constant or accumulator) together with auto increment/decrement: no such 6809 mode
                    if left in ("A", "B", "D") or parse_expr(left, symvals):
                        return {"form": "nomode", "why": "offset combined with auto increment/decrement"}
                    return None
                sub = {"-": "dec1", "--": "dec2", "+": "inc1", "++": "inc2"}[pre or post]
                return {"form": "idx", "sub": sub, "reg": reg, "indirect": ind}
            if left == "":
                if reg == "PCR":
                    return {"form": "nomode", "why": "PCR without an offset"}
                return {"form": "idx", "sub": "zero", "reg": reg, "indirect": ind}
            if left in ("A", "B", "D"):
                if reg == "PCR":
                    return {"form": "nomode", "why": "accumulator offset from PCR"}
                return {"form": "idx", "sub": "acc", "acc": left, "reg": reg, "indirect": ind}
            e = parse_expr(left, symvals)
            if not e:
                return None
            if reg == "PCR":
                return {"form": "pcr", "value": e[0], "nterms": e[1], "indirect": ind}
            return {"form": "idx", "sub": "off", "reg": reg, "value": e[0], "nterms": e[1], "indirect": ind}
        e = parse_expr(inner, symvals)
        return {"form": "addr", "value": e[0], "nterms": e[1]} if e else None
    except DivZero:
        return {"form": "divzero"}
