"""
C18 - relocating, renaming or reformatting a program changes output only as it must.

Metamorphic enumeration: every accepted base program (C02's core walk to depth 2-3 with every label
binding, plus three larger programs) x every transformation of a finite menu - origin shifts, label
bijections, whitespace / comment / mnemonic-case variants, every statement template appended. The base
run is the oracle for the transformed run; instruction boundaries come from the independent decoder.
"""
import itertools
import re
import zlib

from .. import common
from ..ref import m6809 as R
from . import c02, c13, c19

PROP = "C18"
CHUNK = 40

SHIFTS = [1, -1, 0x10, -0x10, 0x100, -0x100, 0x1000, -0x1000, 0x2F, 0xB000]
BASE_ORG = 0x2000
LOW_ORG = 1                      # second base origin: the bottom of memory, where label-n can fall below 0
LOW_SHIFTS = [-1, 1, 0x4F]
RENAMES = [["Q", "ZZ9", "LOOP1", "a1"], ["SU", "XS", "PCX", "DPY"], ["XS", "SU", "a1", "Q"], ["PCRL", "AB", "DD", "CCX"], ["9LIVES", "2ND", "3D", "7UP"], ["N", "LEN", "E", "ENTRY"], ["EACH", "BH", "FACE", "ADD"]]      # the last maps: one-letter names contained in the next name; names that read as hex digits (with or without a trailing H)
FORMATS = ["space1", "tabs", "space8", "nocomment", "comment.x", "comment.hostile", "comment.wide", "mnem.lower", "mnem.mixed", "trailing.ws", "crlf", "eof.no-newline"]
# formats that only exist in a FILE (characters that some line splitters take for line boundaries): assembled through the tool's own
# file reader, as assembler.py and INCLUDE do
FORMATS_FILE = ["file.comment.ff", "file.fields.ff", "file.plain"]
ABS_TAGS = {"ext.lbl", "ext.lbl.p", "ext.lbl+1", "imm.lbl", "imm.lbl.p", "extind.lbl", "idx.lbl", "idx.lbl.p", "ind.lbl", "imm.lbl+1",
            "idx.lbl+1", "extind.lbl+1"}
LABEL_RE = re.compile(r"\bL(\d)\b")


def base_programs(tier):
    core = c02.CORE
    noorg = [t for t in core if not t.startswith("org")]
    for a in noorg:
        for case in c02.programs_for((a,), ("all",)):
            yield case
    for a, b in itertools.product(noorg, repeat=2):
        for case in c02.programs_for((a, b), ("all",)):
            yield case
    sub = noorg if tier == "thorough" else ["inh1", "ext.lbl", "imm.lbl", "pcr.lbl", "bra", "equ8", "extind.lbl", "idx.lbl", "fcc11"]
    for tup in itertools.product(sub, repeat=3):
        for case in c02.programs_for(tup, ("all",)):
            if "UNDEF" in case["bind"]:
                continue
            yield case


LOWTAGS = ["inh1", "rmb1", "fcb1", "pcr.lbl", "pcr.lbl+2", "pcr.lbl-1.ind", "pcr.lbl-3", "pcr.lbl.ind", "bra", "bra.lbl+1", "bra.lbl-2", "lbne"]
LOWTAGS3 = ["inh1", "rmb1", "pcr.lbl-3", "pcr.lbl-1.ind", "bra.lbl-2", "pcr.lbl+2"]


def low_programs(tier):
    """programs for the bottom of memory: relative references label, label+n, label-n (label-n may fall below 0)"""
    for n, tags in ((1, LOWTAGS), (2, LOWTAGS), (3, LOWTAGS if tier == "thorough" else LOWTAGS3)):
        for tup in itertools.product(tags, repeat=n):
            for case in c02.programs_for(tup, ("all",)):
                if "UNDEF" not in case["bind"]:
                    yield case


HIGH_ORG = 0xFFD0
HIGHTAGS = ["inh1", "fcb1", "ext.lbl", "ext.lbl+1", "imm.lbl+1", "pcr.lbl+2", "idx.lbl+1", "extind.lbl+1", "bra.lbl+1", "pcr.lbl"]


# a program that defines no symbol at all, made of operands whose written width or sign differs from the field they are rendered into
# constants written as 16 bits whose value fits 8 (and others), used alone and as terms of constant expressions
CONSTS = ["PORT EQU $0020", "COUNT EQU 16", "WIDE EQU $1234", "NEGC EQU -3", "START LDA PORT+1", " LDB PORT", " LEAX COUNT+2,PCR", " STA DATA",
          "LOOP LDX #COUNT-1", " LDD WIDE+1", " LDA PORT-1", " BNE LOOP", " STB COUNT+1,X", " LDA #NEGC", " RTS", "DATA RMB 2"]
LOCAL_BIG = {"consts": CONSTS}
NOSYM = [" LDD #-2", " ADDD $10,X", " STD [$40]", " LDA -5", " LDX [5,X]", " CMPX #-128", " LDB #-1", " JMP >-2", " RTS"]


def high_programs(tier):
    """programs for the top of memory: label+n may reach $FFFF and wrap past it"""
    for n in (1, 2):
        for tup in itertools.product(HIGHTAGS, repeat=n):
            for case in c02.programs_for(tup, ("all",)):
                if "UNDEF" not in case["bind"]:
                    yield case


def cases(tier, seed):
    for case in high_programs(tier):
        for d in range(1, 0x30):
            yield {"tags": case["tags"], "bind": case["bind"], "tr": "shift", "arg": d, "org": HIGH_ORG}
    for case in low_programs(tier):
        for d in LOW_SHIFTS:
            yield {"tags": case["tags"], "bind": case["bind"], "tr": "shift", "arg": d, "org": LOW_ORG}
    # dir.lbl (<label) is invalid by itself for labels above $FF, which every label of a program at $2000 is
    suffixes = [t[0] for t in c02.T if not t[0].startswith("org") and t[0] != "dir.lbl"]
    for case in base_programs(tier):
        if "UNDEF" in case["bind"]:
            continue
        base = {"tags": case["tags"], "bind": case["bind"]}
        for d in SHIFTS:
            yield dict(base, tr="shift", arg=d)
        for d in LOW_SHIFTS:
            yield dict(base, tr="shift", arg=d, org=LOW_ORG)
        for i in range(len(RENAMES)):
            yield dict(base, tr="rename", arg=i)
        for f in FORMATS:
            yield dict(base, tr="format", arg=f)
        sfx = suffixes if (tier == "thorough" or len(case["tags"]) <= 2) else ["inh1", "ext.lbl", "pcr.lbl", "bra", "rmb300", "equ16", "fcc11", "end"]
        for s in sfx:
            yield dict(base, tr="suffix", arg=s)
        if len(case["tags"]) == 1:
            # the same with a label on the ORG line (the label of the first statement of a program)
            for d in SHIFTS:
                yield dict(base, tr="shift", arg=d, olab=True)
            yield dict(base, tr="rename", arg=0, olab=True)
            yield dict(base, tr="format", arg=FORMATS[0], olab=True)
            for f in FORMATS_FILE:
                yield dict(base, tr="format", arg=f)
            yield dict(base, tr="suffix", arg="ext.lbl", olab=True)
    # interacting PC-relative statements (sizes that depend on each other) with a PC-relative or branch statement appended
    for ra, rb in itertools.product(["S0", "LA", "M", "LB", "S3"], repeat=2):
        for g1 in (112, 118, 121, 122, 123, 126, 131):
            for g2 in (112, 118, 122, 124, 127):
                for sfx in ("LEAX S0,PCR", "LEAY S3,PCR", "LDD LA,PCR", "LEAX M,PCR", "LEAX LB,PCR", "LEAX ZNEW,PCR", "BRA S3", "LBRA S0", "NOP"):
                    yield {"two": [ra, rb, g1, g2], "tr": "suffix.pcr", "arg": sfx}
    for r in itertools.product(["S0", "LB", "M1", "LC", "M2", "S4"], repeat=3):
        for g0, g1 in itertools.product((112, 118, 122, 126), repeat=2):
            for sfx in ("LEAX LB,PCR", "LEAX LA,PCR", "LEAY S4,PCR", "LDD M1,PCR", "LEAX ZNEW,PCR", "BRA S4"):
                yield {"three": [list(r), g0, g1], "tr": "suffix.pcr", "arg": sfx}
    # a program in two regions (code, then variables at the bottom of memory after a second ORG): both origins move by D
    for d0 in (0, 1, 0x10):
        for d in (1, 0x10, 0x20, 0x80, 0xE0):
            if d0 + d + 8 <= 0x100:
                yield {"tworeg": d0, "tr": "shift2", "arg": d}
    for name in ("readme", "xref", "pcr", "strings", "exprs", "nosym", "consts"):
        for d in SHIFTS:
            yield {"big": name, "tr": "shift", "arg": d}
            yield {"big": name, "tr": "shift", "arg": d, "olab": True}
        for f in FORMATS + FORMATS_FILE:
            yield {"big": name, "tr": "format", "arg": f}
        for s in suffixes:
            yield {"big": name, "tr": "suffix", "arg": s}
        yield {"big": name, "tr": "rename", "arg": 0}


def fields(line):
    f = c13.split_fields(line)
    return f if f else ("", "", "", "")


def reformat(line, how):
    label, mnem, op, cm = fields(line)
    cm = cm or "original comment"
    if mnem == "FCC" and how in ("comment.hostile",):
        cm = "plain"
    if how == "space1":
        s = "{} {} {}".format(label, mnem, op) + (" ; " + cm)
    elif how == "tabs":
        s = "{}\t{}\t{}\t; {}".format(label, mnem, op, cm)
    elif how == "space8":
        s = "{}        {}        {}        ; {}".format(label, mnem, op, cm)
    elif how == "nocomment":
        s = "{} {} {}".format(label, mnem, op)
    elif how == "comment.x":
        s = "{} {} {} ; x".format(label, mnem, op)
    elif how == "comment.hostile":
        s = "{} {} {} ; {}".format(label, mnem, op, ',X "q" ; #$ [L0,PCR] +1')
    elif how == "comment.wide":
        s = "{} {} {} ; {}".format(label, mnem, op, "caf\u00e9 \u2014 \u201cquoted\u201d \u2192 \u20ac \u65e5\u672c")
    elif how == "mnem.lower":
        s = "{} {} {} ; {}".format(label, mnem.lower(), op, cm)
    elif how == "mnem.mixed":
        s = "{} {} {} ; {}".format(label, "".join(c.lower() if i % 2 else c for i, c in enumerate(mnem)), op, cm)
    elif how == "crlf":
        s = "{} {} {} ; {}\r".format(label, mnem, op, cm)
    elif how == "file.comment.ff":        # form feed, vertical tab, the C0 separators, NEL and LINE SEPARATOR inside the comment
        s = "{} {} {} ; {}".format(label, mnem, op, "page\x0cbreak\x0b INCA \x1c\x1d\x1e \x85 \u2028 NOP \u2029 tail" if mnem != "FCC" else "plain\x0cbreak")
    elif how == "file.fields.ff":         # a form feed inside the white space between the fields
        s = "{} \x0c {} \x0c {} \x0c ; {}".format(label, mnem, op, cm)
    elif how == "file.plain":
        s = "{} {} {} ; {}".format(label, mnem, op, cm)
    elif how == "trailing.ws":
        s = "{} {} {}   \t ".format(label, mnem, op)
    else:
        raise ValueError(how)
    return s


def base_lines(case):
    if "two" in case:
        ra, rb, g1, g2 = case["two"]
        return ["S0 NOP", "LA LEAX {},PCR".format(ra), " RMB {}".format(g1), "M NOP", "LB LEAX {},PCR".format(rb), " RMB {}".format(g2), "S3 NOP"], None
    if "three" in case:
        r, g0, g1 = case["three"]
        return ["S0 NOP", "LA LEAX {},PCR".format(r[0]), " RMB {}".format(g0), "LB LEAY {},PCR".format(r[1]), "M1 RMB {}".format(g1),
                "LC LDD {},PCR".format(r[2]), "M2 NOP", "S4 NOP"], None
    if "big" in case:
        lines = [ln for ln in (NOSYM if case["big"] == "nosym" else LOCAL_BIG[case["big"]] if case["big"] in LOCAL_BIG else c19.BIG[case["big"]])]
        lines = [ln for ln in lines if fields(ln)[1] not in ("ORG",)]
        labels = []
        return lines, None
    lines, labels = c02.build({"tags": case["tags"], "bind": case["bind"], "variant": "all"})
    return lines, labels


def abs_statement(case, i, lines):
    """does statement i reference one of the program's own labels absolutely (16-bit address of a label)?"""
    if "big" in case:
        label, mnem, op, _ = fields(lines[i])
        if mnem in ("FDB", "FCB", "FCC", "RMB", "EQU", "NAM", "END", "SETDP") or not op:
            return False
        if op.endswith(",PCR") or op.endswith(",PCR]") or mnem.startswith("B") or mnem.startswith("LB"):
            return False
        own = {fields(l)[0] for l in lines if fields(l)[0] and fields(l)[1] != "EQU"}
        return any(re.search(r"(?<![\w@])" + re.escape(n) + r"(?![\w@])", op) for n in own)
    tag = case["tags"][i]
    b = case["bind"][i]
    if tag not in ABS_TAGS or not b or b == "UNDEF":
        return False
    j = int(b[1:])
    seen = set()
    while case["tags"][j] == "equ.lbl" and case["bind"][j] and case["bind"][j] != "UNDEF" and j not in seen:
        seen.add(j)                       # an EQU that names another symbol is an alias of it
        j = int(case["bind"][j][1:])
    return c02.TAGS[case["tags"][j]][3] != "equ"


def decode_statements(out, lines):
    """-> per statement (address, bytes) using listing addresses"""
    addrs = out["addrs"]
    origin = out["origin"] or 0
    res = []
    for i, a in enumerate(addrs):
        nxt = addrs[i + 1] if i + 1 < len(addrs) else origin + len(out["image"])
        res.append((a, out["image"][a - origin:nxt - origin] if nxt >= a else b""))
    return res


def tworeg_lines(d):
    return [" ORG ${:04X}".format(0x0E00 + d), "START LDA COUNT", " INC COUNT", " LDX #TABLE", " STX POINTR", " LEAY START,PCR", " BNE START", " RTS",
            " ORG ${:04X}".format(d), "COUNT RMB 1", "POINTR RMB 2", "TABLE RMB 4"]


def check_tworeg(case):
    d0, d = case["tworeg"], case["arg"]
    cell = "shift2|{}>{}".format(d0, d0 + d)
    res = {"nontrivial": False, "outcome": "skip", "state": "skip"}
    a, b = common.assemble_confirm(tworeg_lines(d0)), common.assemble_confirm(tworeg_lines(d0 + d))
    if a["kind"] != "OK" or b["kind"] != "OK":
        if a["kind"] != b["kind"]:
            res["viol"] = [{"component": "metamorphic", "cell": cell, "symptom": "relocated two-region program rejected", "expected": a["kind"],
                            "observed": common.outcome_brief(b), "input": dict(case, lines=tworeg_lines(d0 + d))}]
        res["state"] = "tworeg-" + a["kind"]
        return res
    res["nontrivial"] = True
    viol = []
    want = {k: v + d for k, v in a["symbols"].items()}
    if b["symbols"] != want:
        viol.append(("symbol value does not follow the origin", want, b["symbols"]))
    elif [x + d for x in a["addrs"]] != b["addrs"]:
        viol.append(("listing address does not follow the origin", [x + d for x in a["addrs"]][:12], b["addrs"][:12]))
    elif len(a["image"]) != len(b["image"]):
        viol.append(("layout changes with the origin", len(a["image"]), len(b["image"])))
    else:
        # the four absolute references (extended / immediate 16-bit operands) move by D, every other byte stays
        ia, ib = bytearray(a["image"]), bytearray(b["image"])
        for off in (1, 4, 7, 10):
            va, vb = int.from_bytes(ia[off:off + 2], "big"), int.from_bytes(ib[off:off + 2], "big")
            if (vb - va) & 0xFFFF != d:
                viol.append(("absolute label reference does not move by D", "+{}".format(d), "{:04X} -> {:04X}".format(va, vb)))
                break
            ia[off:off + 2] = ib[off:off + 2] = b"\0\0"
        if not viol and ia != ib:
            viol.append(("byte changed that is not an absolute label reference", bytes(ia).hex(), bytes(ib).hex()))
    res["state"] = "shift2:{}".format(zlib.crc32(a["image"]))
    res["outcome"] = "violation" if viol else "ok"
    if viol:
        res["viol"] = [{"component": "metamorphic", "cell": cell, "symptom": v[0], "expected": str(v[1])[:160], "observed": str(v[2])[:160],
                        "input": dict(case, lines=tworeg_lines(d0 + d))} for v in viol[:1]]
    return res


def check_case(case):
    if "tworeg" in case:
        return check_tworeg(case)
    lines0, labels = base_lines(case)
    tr, arg = case["tr"], case["arg"]
    olab = "OLAB9" if case.get("olab") else ""       # a label on the ORG line itself: the first statement of the program carries a label
    cell = "{}|{}|{}".format(tr + ("@{}".format(case["org"]) if "org" in case else "") + (".olab" if olab else ""), arg if tr != "rename" else "map{}".format(arg),
                             case.get("big") or ("two:{}>{}".format(case["two"][0], case["two"][1]) if "two" in case else
                                                  "three:{}".format(">".join(case["three"][0])) if "three" in case else ",".join(case["tags"])))
    res = {"nontrivial": False, "outcome": "skip", "state": "skip"}
    viol = []

    def bad(symptom, expected, observed):
        viol.append({"component": "metamorphic", "cell": cell, "symptom": symptom, "expected": str(expected)[:160], "observed": str(observed)[:160],
                     "input": dict(case, base=lines0)})

    org = case.get("org", BASE_ORG)
    if org == LOW_ORG and any(abs_statement(case, i, lines0) for i in range(len(lines0))):
        # below $100 the width of an absolute reference (direct / 5-bit / 8-bit offset) legitimately depends on the label's value
        return res
    base = [olab + " ORG ${:04X}".format(org)] + lines0
    ref = common.assemble_confirm(base)
    if ref["kind"] != "OK":
        res["state"] = "base-" + ref["kind"]
        return res
    res["nontrivial"] = True
    if tr == "shift":
        new_org = org + arg
        if (new_org < 0x100) != (org < 0x100) or new_org + len(ref["image"]) > 0x10000 or new_org < 0:
            return res
        if new_org + len(ref["image"]) == 0x10000 and any(a is not None and a + arg > 0xFFFF for a in ref["addrs"]):
            # the last byte lands on $FFFF and a statement that emits nothing would follow it at $10000, which is no address
            return res
        if org < 0x100 and max(org, new_org) + len(ref["image"]) > 0x100:
            return res
        out = common.assemble_confirm([olab + " ORG ${:04X}".format(new_org)] + lines0)
        if out["kind"] != "OK":
            bad("relocated program rejected", "accepted", common.outcome_brief(out))
        else:
            if len(out["image"]) != len(ref["image"]) or [a - new_org for a in out["addrs"][1:]] != [a - org for a in ref["addrs"][1:]]:
                bad("layout changes with the origin", "same sizes", "sizes differ")
            else:
                sa, sb = decode_statements(ref, base), decode_statements(out, base)
                for i in range(1, len(base)):
                    (a0, b0), (a1, b1) = sa[i], sb[i]
                    if abs_statement(case, i - 1, lines0) and len(b0) >= 3:
                        v0, v1 = int.from_bytes(b0[-2:], "big"), int.from_bytes(b1[-2:], "big")
                        if b0[:-2] != b1[:-2] or (v1 - v0) & 0xFFFF != arg & 0xFFFF:
                            bad("absolute label reference does not move by D", "operand +{}".format(arg), "{} -> {}".format(b0.hex(), b1.hex()))
                            break
                    elif b0 != b1:
                        bad("byte changed that is not an absolute label reference", b0.hex(), b1.hex())
                        break
                def is_constant(k, depth=0):
                    for l in lines0:
                        f = fields(l)
                        if f[0] == k and f[1] == "EQU":
                            # an EQU that names another symbol of the program is as constant as that symbol
                            return is_constant(f[2], depth + 1) if f[2] in ref["symbols"] and depth < 10 else True
                    return False
                for k, v in ref["symbols"].items():
                    is_equ = is_constant(k)
                    want = v if is_equ else v + arg
                    if out["symbols"].get(k) != want and not viol:
                        bad("symbol value does not follow the origin", "{}={:04X}".format(k, want), out["symbols"].get(k))
    elif tr == "rename":
        names = sorted({fields(l)[0] for l in lines0 if fields(l)[0]})
        targets = RENAMES[arg] + ["NEWLBL{}".format(i) for i in range(20)]
        mp = dict(zip(names, targets))

        def ren(line):
            return re.sub(r"(?<![\w@$'])(" + "|".join(re.escape(n) for n in names) + r")(?![\w@])", lambda m: mp[m.group(1)], line) if names else line
        new = []
        for l in lines0:
            f = fields(l)
            if f[1] == "FCC":
                new.append("{} {} {}".format(mp.get(f[0], f[0]), f[1], f[2]))
            else:
                new.append(ren(l.split(";")[0]))
        out = common.assemble_confirm([base[0]] + new)
        if out["kind"] != "OK":
            bad("renamed program rejected", "accepted", common.outcome_brief(out))
        elif out["image"] != ref["image"] or out["addrs"] != ref["addrs"]:
            bad("renaming labels changes the output", ref["image"].hex()[:40], out["image"].hex()[:40])
        elif {mp.get(k, k): v for k, v in ref["symbols"].items()} != out["symbols"]:
            bad("renaming labels changes symbol values", ref["symbols"], out["symbols"])
    elif tr == "format":
        if arg == "eof.no-newline":       # the file ends without a line end (what readlines() gives for such a file)
            raw = [ln + "\n" for ln in [base[0]] + lines0]
            raw[-1] = raw[-1].rstrip("\n").split(";")[0].rstrip() if fields(lines0[-1])[1].upper() != "FCC" else raw[-1].rstrip("\n")
            out = common.assemble_confirm(raw, raw=True)
        elif arg in FORMATS_FILE:
            from cocoasm.virtualfiles.source_file import SourceFile
            new = [reformat(l, arg) for l in lines0]
            with common.scratch_dir():
                with open("prog.asm", "w", encoding="utf-8", newline="") as f:
                    f.write("".join(ln + "\n" for ln in [base[0]] + new))
                try:
                    sf = SourceFile("prog.asm")
                    sf.read_file()
                    raw = list(sf.get_buffer())
                except Exception as e:
                    raw = None
                    bad("source file could not be read", "lines", repr(e)[:100])
            out = common.assemble_confirm(raw, raw=True) if raw is not None else ref
        else:
            new = [reformat(l, arg) for l in lines0]
            out = common.assemble_confirm([base[0]] + new)
        if out["kind"] != "OK":
            bad("reformatted program rejected", "accepted", common.outcome_brief(out))
        elif out["image"] != ref["image"] or out["addrs"] != ref["addrs"] or out["symbols"] != ref["symbols"]:
            bad("reformatting changes the output", ref["image"].hex()[:40], out["image"].hex()[:40])
    elif tr == "suffix.pcr":
        out = common.assemble_confirm(base + ["ZNEW " + arg])
        if out["kind"] != "OK":
            bad("appending a statement makes the program rejected", "accepted", common.outcome_brief(out))
        else:
            n = len(base)
            if out["image"][:len(ref["image"])] != ref["image"]:
                bad("appending a statement changes earlier bytes", ref["image"].hex()[:20] + "...", out["image"].hex()[:20] + "...")
            elif out["addrs"][:n] != ref["addrs"]:
                bad("appending a statement changes earlier addresses", ref["addrs"], out["addrs"][:n])
            elif any(out["symbols"].get(k) != v for k, v in ref["symbols"].items()):
                bad("appending a statement changes earlier symbol values", ref["symbols"], out["symbols"])
    elif tr == "suffix":
        _, mnem, optxt, kind, _ = c02.TAGS[arg]
        names = [fields(l)[0] for l in lines0 if fields(l)[0] and fields(l)[1] != "EQU"]
        if arg == "equ.lbl" and not names:
            names = [fields(l)[0] for l in lines0 if fields(l)[0]]
            if not names:
                return res            # ZNEW EQU ZNEW is invalid by itself
        targets = [names[0] if names else "ZNEW"]
        if arg == "equ.lbl":      # an alias of every constant of the program as well (NEW EQU OLD after the last statement)
            targets += [fields(l)[0] for l in lines0 if fields(l)[0] and fields(l)[1] == "EQU" and fields(l)[0] not in targets]
        for target in targets:
            extra = "ZNEW {} {}".format(mnem, optxt.replace("{L}", target))
            out = common.assemble_confirm(base + [extra])
            if out["kind"] != "OK":
                alone = common.assemble_confirm([base[0], extra.replace(target, "ZNEW") if not names else extra] + ([] if names else []))
                if out["kind"] == "DIAG" and (kind == "equ" or mnem in ("END",)) and False:
                    pass
                # a suffix that is invalid by itself (e.g. short branch out of range to a far label) is not a violation
                far = mnem in R.MNEM and "REL8" in R.MNEM[mnem] and len(ref["image"]) > 120
                if not far:
                    bad("appending a statement makes the program rejected", "accepted", common.outcome_brief(out))
            else:
                n = len(base)
                if out["image"][:len(ref["image"])] != ref["image"]:
                    bad("appending a statement changes earlier bytes", ref["image"].hex()[:40], out["image"].hex()[:40])
                elif out["addrs"][:n] != ref["addrs"]:
                    bad("appending a statement changes earlier addresses", ref["addrs"], out["addrs"][:n])
                elif any(out["symbols"].get(k) != v for k, v in ref["symbols"].items()):
                    bad("appending a statement changes earlier symbol values", ref["symbols"], out["symbols"])
    res["state"] = "{}:{}".format(tr, zlib.crc32(ref["image"]))
    res["outcome"] = "violation" if viol else "ok"
    if viol:
        res["viol"] = viol[:2]
    if zlib.crc32(repr(sorted(case.items(), key=str)).encode()) % 4001 == 0:
        res["sample"] = {"base": base[:6], "transformation": tr, "arg": arg}
    return res


def describe(tier):
    return {
        "alphabet": "base programs: every accepted 1- and 2-statement sequence of C02's core alphabet (no ORG) with every label binding, " +
                    ("every 3-statement sequence" if tier == "thorough" else "3-statement sequences over a 9-template slice") +
                    ", README example, cross-reference program, interacting-PCR program, a program of constants written as 16 bits whose value fits 8 (used as terms of constant expressions; the appended EQU aliases every constant as well as a label), and families of two and three mutually dependent label,PCR "
                    "statements (every reference pattern over 5-6 labels x gaps around the 8/16-bit limit) with PC-relative / branch statements appended; transformations: origin shifts {} from $2000 and shifts -1 +1 +$4F from origin $0001 (programs without absolute label references, wholly below $100, plus every 1-3 statement program over 12 relative-reference templates label / label+n / label-n where label-n may fall below 0); 4 label "
                    "1-2 statement programs over label / label+n templates based at $FFD0 and moved up byte by byte until they touch $FFFF; a two-region program (code at $0E00+D, variables after a second ORG at 0+D / 1+D / $10+D) under 5 shifts; bijections onto names incl. SU XS PCX DPY a1 PCRL CCX; formats {}; every non-ORG statement template of C02 appended".format(SHIFTS, FORMATS),
        "bound": "one transformation per run (the menu is applied exhaustively to every base program)",
        "oracle": "shift: identical sizes, every byte identical except the 16-bit operand of statements that reference an own label absolutely, which "
                  "moves by exactly D; symbols +D (EQU unchanged); rename/format: identical image, addresses, symbol values (under the bijection); "
                  "suffix: old image is a prefix, old addresses and symbols unchanged; a transformed program must still be accepted",
        "rule": "state = (transformation, checksum of the base image); non-trivial = base accepted",
        "assumptions": ["shifts that cross $100 or leave 0..65535 are skipped (outside the property)",
                        "a short-branch suffix to a label more than 120 bytes away may legitimately be rejected"],
    }
