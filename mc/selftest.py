"""setup_cmd: verifies the reference models against themselves and against golden vectors. Exit 0 when sane."""
import sys

from .ref import m6809 as R


def main():
    n = 0
    # golden vectors: README listing
    gold = [("JSR", "BDA928"), ("LDX", "8E0E11"), ("LDA", "A680"), ("CMPA", "8100"), ("BEQ", "2712"), ("JSR", "BDA30A"),
            ("BRA", "20F5"), ("JSR", "AD9FA000"), ("BEQ", "27FA"), ("JMP", "7EA027"), ("LEAX", "308C10"), ("LDY", "10AE8DFF00"),
            ("PSHS", "3406"), ("TFR", "1F12"), ("LBRA", "16FFFD"), ("LBEQ", "1027FFFC"), ("SWI2", "103F"), ("CMPS", "118C1234")]
    for mnem, hx in gold:
        rec, why = R.check_statement_bytes(mnem, bytes.fromhex(hx), 0x0E00)
        assert rec is not None, (mnem, hx, why)
        n += 1
    assert len(R.OPC) == 268 and len(R.MNEM) == 139, (len(R.OPC), len(R.MNEM))
    print("selftest ok: {} golden vectors, {} opcodes, {} mnemonics".format(n, len(R.OPC), len(R.MNEM)))


if __name__ == "__main__":
    main()
    sys.exit(0)
