"""
C10 - an existing target file is never modified unless append applies to it.

BFS over command-line invocation sequences on one target path in a private directory:
{--to_bin,--to_cas,--to_dsk} x {append, no append} x pre-existing target {absent, empty, cassette (1/2
files), disk (blank/1 file), raw binary, arbitrary bytes (with/without an embedded 55 3C 00), all-$00 /
all-$55 / all-$FF bytes, cassette >= 161,280 bytes} x {assembler.py prog.asm, file_util.py src.cas, file_util.py src.dsk}. Reference =
the save-gating model of the property; the kind of the target is decided by the independent parsers.
"""
import itertools
import os
import shutil
import tempfile
import zlib

from .. import common, cli
from .. import containers as C
from ..ref import dskfs, tape
from . import c07

PROP = "C10"
CHUNK = 4

PROG = ["        NAM PROG", "        ORG $0E00", "START   LDA #1", "        RTS", "        END START"]
PROG_BYTES = bytes([0x86, 0x01, 0x39])
SRC_FILE = c07.fspec("ML", 40, "SRCFILE", pat="ramp7", load=0x3000, exec_=0x3005)

TARGETS = ["absent", "empty", "cas1", "cas2", "dskblank", "dsk1", "rawbin", "bytes", "bytes553c", "casbig", "zeros", "all55", "allFF", "casodd", "dsk67", "dskholes", "dskemptyml", "casbig00", "dsktext", "bintapey", "dskexact", "casnear00"]
SWITCHES = ["bin", "cas", "dsk"]
CLIS = ["asm", "fu.cas", "fu.dsk"]


def make_target(kind):
    """-> bytes or None"""
    from cocoasm.virtualfiles.cassette import CassetteFile
    from cocoasm.virtualfiles.disk import DiskFile
    if kind == "absent":
        return None
    if kind == "empty":
        return b""
    if kind in ("cas1", "cas2", "casbig"):
        cf = CassetteFile()
        files = [c07.fspec("ML", 20, "OLD1")] + ([c07.fspec("BAS", 30, "OLD2", "BAS")] if kind == "cas2" else [])
        if kind == "casbig":
            files = [c07.fspec("ML", 65535, "BIG{}".format(i), pat="dir") for i in range(3)]
        return bytes(tape.write([dict(name=s["name"], type=s["type"], dtype=s["dtype"], load=s["load"], exec=s["exec"],
                                      data=C.pattern(s["n"], s["pat"])) for s in files]))
    if kind == "dskblank":
        return dskfs.write([])
    if kind == "dsk1":
        return dskfs.write([{"name": "OLDDSK", "ext": "BIN", "type": 2, "dtype": 0, "stream": dskfs.make_stream("ml", C.pattern(50, "ramp"), 0x1000, 0x1000),
                             "chain": [5, 9]}])
    if kind == "dsk67":       # a valid disk whose file runs through the first and the last granule (chain 67 -> 0 -> 33)
        return dskfs.write([{"name": "LASTGRAN", "ext": "BIN", "type": 2, "dtype": 0, "stream": dskfs.make_stream("ml", C.pattern(5000, "ramp"), 0x1000, 0x1000),
                             "chain": [67, 0, 33]}])
    if kind == "casbig00":    # a tape longer than a disk image whose bytes at the 72 directory-entry offsets are all $00/$FF (blank screen dumps)
        for first in range(61440, 61440 + 400):
            b = bytes(tape.write([dict(name="SCREEN{}".format(i), type=2, dtype=0, load=0x0E00, exec=0x0E00, data=bytes(n))
                                  for i, n in enumerate((first, 61440, 61440))]))
            if len(b) > dskfs.IMAGE_SIZE and all(x in (0x00, 0xFF) for x in b[dskfs.DIR_OFF:dskfs.DIR_OFF + 72 * 32:32]):
                return b
        raise AssertionError("no such tape")
    if kind == "casnear00":   # the same kind of tape, but only a fraction of a sector longer than a disk image (161,281..161,535 bytes)
        for first in range(61440, 61440 + 300):
            for third in range(33000, 33600):
                b = bytes(tape.write([dict(name="SCREEN{}".format(i), type=2, dtype=0, load=0x0E00, exec=0x0E00, data=bytes(n))
                                      for i, n in enumerate((first, 61440, third))]))
                if len(b) > dskfs.IMAGE_SIZE + 255:
                    break
                if len(b) > dskfs.IMAGE_SIZE and len(b) % 256 and all(x in (0x00, 0xFF) for x in b[dskfs.DIR_OFF:dskfs.DIR_OFF + 72 * 32:32]):
                    return b
        raise AssertionError("no such tape")
    if kind == "bintapey":    # a raw program that carries tape block templates as data (a tape-writing utility): header and data block patterns, no EOF block
        return (bytes([0x8E, 0x10, 0x00, 0x39]) + bytes([0x55, 0x3C, 0x00, 0x0F]) + b"TAPEUTIL" + bytes([2, 0, 0, 0x0E, 0x00, 0x0E, 0x00, 0x3D, 0x55]) +
                bytes([0x12] * 9) + bytes([0x55, 0x3C, 0x01, 0x03, 0x41, 0x42, 0x43, 0xCA, 0x55]) + bytes([0x39]))
    if kind == "dskexact":    # a valid disk as Disk BASIC writes it: a text file that fills its only granule completely (marker $C9, 256 bytes in the last sector)
        return dskfs.write([{"name": "FULLGRAN", "ext": "TXT", "type": 1, "dtype": 0xFF, "stream": C.pattern(2304, "ramp7"), "chain": [5]},
                            {"name": "PROGRAM", "ext": "BIN", "type": 2, "dtype": 0, "stream": dskfs.make_stream("ml", C.pattern(40, "ramp"), 0x1000, 0x1000), "chain": [32]}], tight=True)
    if kind == "dsktext":     # a valid disk holding a machine-language file and a type-3 (text) ASCII file
        return dskfs.write([{"name": "PROGRAM", "ext": "BIN", "type": 2, "dtype": 0, "stream": dskfs.make_stream("ml", C.pattern(40, "ramp"), 0x1000, 0x1000), "chain": [32]},
                            {"name": "README", "ext": "TXT", "type": 3, "dtype": 0xFF, "stream": dskfs.make_stream("ascii", C.pattern(300, "ramp7"), 0, 0), "chain": [33]},
                            {"name": "DATAFILE", "ext": "DAT", "type": 1, "dtype": 0xFF, "stream": dskfs.make_stream("ascii", C.pattern(20, "55"), 0, 0), "chain": [34]}])
    if kind == "dskemptyml":  # a valid disk holding a machine-language file without data (what assembling a program that emits no bytes leaves)
        return dskfs.write([{"name": "NOBYTES", "ext": "BIN", "type": 2, "dtype": 0, "stream": dskfs.make_stream("ml", b"", 0x0E00, 0x0E00), "chain": [33]},
                            {"name": "SECOND", "ext": "BIN", "type": 2, "dtype": 0, "stream": dskfs.make_stream("ml", C.pattern(20, "ramp"), 0x1000, 0x1000), "chain": [32]}])
    if kind == "dskholes":    # a valid disk whose directory has a KILLed and a never-used entry in front of live ones
        return c07.holes_image("KFUF")[0]
    if kind == "rawbin":
        return bytes([0x12, 0x12, 0x39])
    if kind == "bytes":
        return bytes((i * 37 + 11) & 0xFF for i in range(700)).replace(b"\x55\x3c", b"\x55\x3d")
    if kind == "casodd":      # a well-formed tape whose second file name holds a byte that is not valid UTF-8 (e.g. saved with --name CAF\xc9)
        return bytes(tape.write([dict(name="FIRST", type=2, dtype=0, load=0x1000, exec=0x1000, data=C.pattern(20, "ramp")),
                                 dict(name="CAF\xc9", type=2, dtype=0, load=0x2000, exec=0x2000, data=C.pattern(30, "ramp7"))]))
    if kind == "zeros":
        return bytes(16)
    if kind == "all55":
        return b"\x55" * 300
    if kind == "allFF":
        return b"\xFF" * 40
    if kind == "zeros161280":
        return bytes(dskfs.IMAGE_SIZE)
    if kind == "bytes553c":
        return b"hello \x55\x3c\x00 world" + bytes(range(200))
    raise ValueError(kind)


def classify(b):
    """independent classification of host-file content: absent|empty|cas|dsk|other ; -> (kind, files)"""
    if b is None:
        return "absent", []
    if len(b) == 0:
        return "empty", []
    if len(b) == dskfs.IMAGE_SIZE and not dskfs.fsck(b):
        try:
            return "dsk", dskfs.read_files(b)
        except dskfs.FsError:
            pass
    try:
        fs = tape.parse(b)
        if fs:
            return "cas", fs
    except tape.TapeError:
        pass
    return "other", []


def cases(tier, seed):
    thorough = tier == "thorough"
    for t in TARGETS:
        for cl in CLIS:
            for sw in SWITCHES:
                for ap in (False, True):
                    yield {"target": t, "seq": [[cl, sw, ap]], "sub": False}
    # a program name that cannot be stored in an image (not Latin-1): whatever happens, an existing target must not be damaged
    for t in ("absent", "cas1", "dsk1", "rawbin"):
        for sw in SWITCHES:
            for ap in (False, True):
                yield {"target": t, "seq": [["asm.uni", sw, ap]], "sub": False}
    # other spellings of the same path: ./name, through an existing directory and back, through a directory that does not exist
    for t in ("absent", "cas1", "dsk1", "rawbin"):
        for cl in ("asm", "fu.cas"):
            for sw in SWITCHES:
                for ap in (False, True):
                    for spell in ("./", "sub/../", "nosuch/../", "~/", "link:"):
                        yield {"target": t, "seq": [[cl, sw, ap]], "sub": False, "spell": spell}
    # sequences of two (and three) invocations on the same path
    steps = [[cl, sw, ap] for cl in (CLIS if thorough else ["asm"]) for sw in SWITCHES for ap in (False, True)]
    for t in (TARGETS if thorough else ["absent", "empty", "cas1", "dsk1", "rawbin", "bytes"]):
        for a, b in itertools.product(steps, repeat=2):
            yield {"target": t, "seq": [a, b], "sub": False}
    if thorough:
        asm_steps = [["asm", sw, ap] for sw in SWITCHES for ap in (False, True)]
        for t in ("absent", "cas1", "dsk1"):
            for a, b, c in itertools.product(asm_steps, repeat=3):
                yield {"target": t, "seq": [a, b, c], "sub": False}
    # conformance of the in-process driver with the real commands: one real subprocess per (target, cli, switch, append) of a subset
    for t in ("absent", "cas1", "dsk1", "rawbin", "bytes"):
        for cl in CLIS:
            for sw in SWITCHES:
                for ap in (False, True):
                    if cl == "asm" or t in ("absent", "cas1"):
                        yield {"target": t, "seq": [[cl, sw, ap]], "sub": True}


def new_files_for(cl):
    if cl in ("asm", "asm.uni"):
        return [{"name": "PROG", "type": 2, "dtype": 0, "load": 0x0E00, "exec": 0x0E00, "data": PROG_BYTES}]
    return [{"name": SRC_FILE["name"], "type": 2, "dtype": 0, "load": SRC_FILE["load"], "exec": SRC_FILE["exec"], "data": C.pattern(SRC_FILE["n"], SRC_FILE["pat"])}]


def simplify(kind, fs):
    out = []
    for f in fs:
        nm = f["name"].decode("latin1") if isinstance(f["name"], bytes) else f["name"]
        out.append((nm.upper().rstrip()[:8], f["type"], f["dtype"], bytes(f["data"])))
    return out


def check_case(case):
    td = common.mkdtemp(prefix="c10_")
    res = {"nontrivial": True, "outcome": "ok", "transitions": len(case["seq"])}
    viol = []
    cwd = os.getcwd()
    home = os.environ.get("HOME")
    trace = []
    try:
        os.chdir(td)
        with open("prog.asm", "w") as f:
            f.write("".join(ln + "\n" for ln in PROG))
        with open("prog2.asm", "w") as f:
            f.write("".join(ln + "\n" for ln in PROG[1:]))
        open("src.cas", "wb").write(tape.write([dict(name=SRC_FILE["name"], type=2, dtype=0, load=SRC_FILE["load"], exec=SRC_FILE["exec"],
                                                     data=C.pattern(SRC_FILE["n"], SRC_FILE["pat"]))]))
        open("src.dsk", "wb").write(dskfs.write([{"name": SRC_FILE["name"], "ext": "BIN", "type": 2, "dtype": 0,
                                                  "stream": dskfs.make_stream("ml", C.pattern(SRC_FILE["n"], SRC_FILE["pat"]), SRC_FILE["load"], SRC_FILE["exec"]),
                                                  "chain": [3]}]))
        b0 = make_target(case["target"])
        if b0 is not None:
            open("target.out", "wb").write(b0)
        for idx, (cl, sw, ap) in enumerate(case["seq"]):
            before = open("target.out", "rb").read() if os.path.exists("target.out") else None
            kb, fb = classify(before)
            tpath = case.get("spell", "") + "target.out"
            if case.get("spell") == "link:":
                # the path given is a symbolic link to the target (dangling when the target is absent)
                tpath = "latest.out"
                if not os.path.lexists(tpath):
                    os.symlink("target.out", tpath)
            if case.get("spell") == "sub/../":
                os.makedirs("sub", exist_ok=True)
            if case.get("spell") == "~/":
                # a literal ~ that no shell expanded (--to_cas=~/x): the home directory is this case's directory, so that a tool which
                # expands it lands on the existing target
                os.environ["HOME"] = td
            kw = {"to_" + sw: tpath, "append": ap}
            if case["sub"]:
                args = (["prog.asm"] if cl == "asm" else ["src." + cl[3:]]) + ["--to_" + sw, tpath] + (["--append"] if ap else [])
                status, out = cli.subprocess_cli("assembler.py" if cl == "asm" else "file_util.py", args, td)
            elif cl == "asm.uni":
                status, out = cli.assembler("prog2.asm", name="\u03a9mega", **kw)
            elif cl == "asm":
                status, out = cli.assembler("prog.asm", **kw)
            else:
                status, out = cli.file_util("src." + cl[3:], **kw)
            after = open("target.out", "rb").read() if os.path.exists("target.out") else None
            ka, fa = classify(after)
            cell = "{}|{}|{}|{}|{}|step{}{}".format(kb if idx else case["target"], cl, sw, "append" if ap else "noappend", "seq" + str(len(case["seq"])),
                                                  idx, "|sub" if case["sub"] else "") + ("|as:" + case["spell"] if case.get("spell") else "")
            trace.append("{}:{}->{}".format(cell, kb, ka))

            def bad(symptom, expected, observed):
                viol.append({"component": "gate", "cell": cell, "symptom": symptom, "expected": str(expected)[:160], "observed": str(observed)[:200],
                             "input": case})

            if isinstance(status, str):
                bad("command ended with " + status.split()[0].lower(), "clean exit", status)
                break
            want_kind = {"bin": "other", "cas": "cas", "dsk": "dsk"}[sw]
            may_write = before is None or (ap and (kb == want_kind or (kb == "empty" and sw in ("cas", "bin"))))
            if sw == "bin" and kb in ("cas", "dsk"):
                may_write = before is None
            changed = after != before
            if changed and not may_write:
                bad("existing target modified", "byte-identical ({} target, {})".format(kb, "append" if ap else "no append"),
                    "now {} ({} bytes)".format(ka, len(after) if after is not None else None))
            if not changed and before is not None and not may_write:
                # refused: the user must be told why
                if not out.strip():
                    bad("target left alone without any message", "a message", "empty stdout")
                elif "saved to" in out.lower():
                    bad("claims to have saved although nothing was written", "a message saying why nothing was written", out.strip()[:100])
            if changed and cl == "asm.uni" and sw != "bin":
                bad("target damaged by a save that cannot succeed", "unchanged (the name cannot be stored) or a complete image",
                    "{} ({} bytes); stdout: {}".format(ka, len(after) if after is not None else None, out.strip()[-80:]))
            elif changed:
                news = new_files_for(cl)
                if sw == "bin":
                    if after != news[0]["data"]:
                        bad("binary written is not the program/file data", news[0]["data"].hex()[:40], (after or b"").hex()[:40])
                else:
                    if ka != want_kind:
                        bad("file written is not a complete {} image".format(sw), want_kind, ka)
                    else:
                        old = simplify(kb, fb) if (kb == want_kind and ap) else []
                        want = old + simplify(want_kind, news)
                        got = simplify(ka, fa)
                        if got != want:
                            bad("image does not hold old files + new file", [x[0] for x in want], [x[0] for x in got])
            if viol:
                break
    finally:
        os.chdir(cwd)
        if home is None:
            os.environ.pop("HOME", None)
        else:
            os.environ["HOME"] = home
        shutil.rmtree(td, ignore_errors=True)
    res["state"] = ";".join(trace)
    if viol:
        res["viol"] = viol[:2]
        res["outcome"] = "violation"
    if zlib.crc32(repr(case).encode()) % 97 == 0:
        res["sample"] = {"case": case, "trace": trace}
    return res


def describe(tier):
    return {
        "alphabet": "targets {} x commands {} x switches {} x append/no append; the kind of a target is decided by the independent tape parser / "
                    "disk fsck".format(TARGETS, CLIS, SWITCHES),
        "bound": "all single invocations; all sequences of 2 " + ("over all commands and targets, sequences of 3 through assembler.py"
                                                                  if tier == "thorough" else "through assembler.py on 6 targets") +
                 "; 66 single invocations re-executed as real subprocesses",
        "oracle": "target changed only if it was absent, or append was given and its content is an image of the kind written (empty file tolerated "
                  "for cas/bin); when unchanged, stdout says why; when written, the file parses as a complete image of the requested kind holding "
                  "old files + the new one (raw binary = the data bytes)",
        "rule": "state = trace of (target kind before -> after) per step; non-trivial = every sequence",
        "assumptions": ["raw binary content counts as the 'binary' container kind; saving is never required to proceed"],
    }
