"""
C05 - data directives emit exactly the bytes they specify.

Product enumeration of FCB/FDB value lists, FCC strings x delimiters, RMB counts and the no-byte
directives; each statement is assembled between two NOPs and the bytes between them are compared with
the directive's specification.
"""
import itertools
import zlib

from .. import common
from ..ref import m6809 as R

PROP = "C05"
CHUNK = 300

# element kinds: (tag, text, value)
ELEMS = [("0", "0", 0), ("1", "1", 1), ("127", "127", 127), ("128", "128", 128), ("255", "255", 255), ("256", "256", 256),
         ("65535", "65535", 65535), ("-1", "-1", -1), ("-128", "-128", -128), ("-129", "-129", -129), ("-32768", "-32768", -32768),
         ("$7F", "$7F", 0x7F), ("$0A", "$0A", 10), ("$1234", "$1234", 0x1234), ("%bin8", "%10000001", 0x81), ("'A", "'A", 65),
         ("equ", "EQ5", 5), ("label", "LB", 0x3000),
         # (from here on: elements used in the explicit lists below only, not in the products)
         ("'a", "'a", 97), ("'z", "'z", 122), ("'!", "'!", 33),
         # other spellings of zero and of small numbers: a sign in front of 0, leading zeros
         ("-0", "-0", 0), ("$00", "$00", 0), ("007", "007", 7), ("$0000", "$0000", 0)]
NPROD = 18
DELIMS = [chr(c) for c in range(33, 127)]          # every printable non-blank character may delimit a string
STR_ALPHA = ["A", " ", ";", ",", '"', "/", "#", "z", "0", "'"]


def fits(v, w):
    return -(1 << (w - 1)) <= v <= (1 << w) - 1


def cases(tier, seed):
    thorough = tier == "thorough"
    for d in ("FCB", "FDB"):
        for n in (1, 2, 3):
            for combo in itertools.product(range(NPROD), repeat=n):
                if n == 3 and not thorough and len(set(combo)) > 2 and (combo[0] + combo[1] * 3 + combo[2] * 7) % 4:
                    continue
                yield {"d": d, "elems": list(combo)}
        # character constants of lower-case letters and punctuation, alone and inside lists (a list is read by its own code)
        for combo in ([18], [18, 0], [0, 18], [18, 19, 20, 4], [15, 18], [19, 19], [20, 18, 15, 1, 19]):
            yield {"d": d, "elems": combo}
        for combo in ([21], [21, 0], [1, 21, 2], [13, 21], [21, 21], [22], [22, 21, 1], [23], [23, 7], [24], [0, 24, 21]):
            yield {"d": d, "elems": combo}
        for n in range(4, 65):
            for k in range(NPROD):
                yield {"d": d, "elems": [k] * n}
                for pos in (0, n // 2, n - 1):
                    e = [k] * n
                    e[pos] = (k + 5) % NPROD
                    yield {"d": d, "elems": e}
    # FCC
    maxlen = 4 if thorough else 3
    for delim in DELIMS:
        alpha = [c for c in STR_ALPHA if c != delim]
        dl = (['"', "/", "'", "!", ":", ".", "#", "?", "(", "&", "^", "="] + list(";\\`{|}~")) if thorough else ['"', "/", "'"]
        if delim in dl:
            for n in range(0, maxlen + 1):
                for tup in itertools.product(alpha, repeat=n):
                    yield {"d": "FCC", "delim": delim, "s": "".join(tup), "comment": False}
        else:
            for s in ("", "A", "A B", "A;B", "HELLO WORLD", "  ", " A ", "a,b", "x", "1 2"):
                if delim not in s:
                    yield {"d": "FCC", "delim": delim, "s": s, "comment": False}
    for delim in ('"', "/"):
        for c in range(32, 127):
            ch = chr(c)
            if ch == delim:
                continue
            yield {"d": "FCC", "delim": delim, "s": ch, "comment": False}
            yield {"d": "FCC", "delim": delim, "s": "A" + ch + "B", "comment": False}
            yield {"d": "FCC", "delim": delim, "s": "A" + ch + "B", "comment": True}
        # a literal TAB inside the string, at different columns (it is one character, $09, wherever it stands)
        for t in ("\t", "A\tB", "\tA", "A\t", "A\t\tB", "AB\tC", "ABCDEFG\tH", "A \t B"):
            for cm in (False, True):
                yield {"d": "FCC", "delim": delim, "s": t, "comment": cm}
        for n in list(range(0, 40)) + [63, 64, 127, 128, 200, 254, 255] if not thorough else range(0, 256):
            yield {"d": "FCC", "delim": delim, "s": "A" * n, "comment": False}
            yield {"d": "FCC", "delim": delim, "s": " " * n, "comment": False}
            yield {"d": "FCC", "delim": delim, "s": ("AB " * n)[:n], "comment": True}
    # RMB
    ns = range(0, 65536) if thorough else list(range(0, 300)) + [511, 512, 1000, 4095, 4096, 32767, 32768, 40000, 65534, 65535]
    for n in ns:
        yield {"d": "RMB", "n": n, "sp": "dec"}
    for n in (0, 1, 8, 255, 256, 4096, 65535):
        yield {"d": "RMB", "n": n, "sp": "hex"}
    # no-byte directives
    for txt in ("ZQ EQU 5", "ZQ EQU $1234", " ORG $3003", " SETDP 0", " SETDP $30", " NAM PROG", " NAM prog12345", " END", " END LB",
                " END $3000", "ZQ EQU -1", " END LB+2", " END 2+LB", " END LB-1", " END EQ5+1", "ZQ EQU LB", " SETDP EQ5", " NAM LB",
                " SETDP LB", " SETDP ZZ9", " SETDP LB+1", "ZQ EQU ZZ9", "ZQ EQU ZZ9+1", " NAM ZZ9", " END ZZ9", " SETDP EQ5+1"):
        yield {"d": "NONE", "line": txt}
    yield {"d": "INCLUDE"}


def build(case):
    d = case["d"]
    head = ["EQ5 EQU 5", " ORG $3000", "LB NOP"]
    tail = ["ZZ9 NOP"]
    if d in ("FCB", "FDB"):
        stmt = " {} {}".format(d, ",".join(ELEMS[k][1] for k in case["elems"]))
    elif d == "FCC":
        stmt = " FCC {0}{1}{0}".format(case["delim"], case["s"])
        if case["comment"]:
            stmt += " ; a comment, with \"quotes\" / and ; more"
    elif d == "RMB":
        # from address 0 so that every n up to 65535 stays inside the address space; framed by NOPs when there is room
        stmt = " RMB {}".format(R.spell(case["n"], case["sp"]))
        if case["n"] > 40000:
            return [" ORG 0", stmt], 1
    elif d == "NONE":
        stmt = case["line"]
        if "ORG" in stmt:
            return head + [stmt] + tail, 3
    else:
        stmt = " INCLUDE empty.inc"
    return head + [stmt] + tail, 3


def all_programs(tier):
    for c in cases(tier, 0):
        if c["d"] != "INCLUDE":
            yield build(c)[0]


def expected(case):
    """-> (bytes or None if the statement must be rejected, tolerance note)"""
    d = case["d"]
    if d in ("FCB", "FDB"):
        w = 8 if d == "FCB" else 16
        out = b""
        for k in case["elems"]:
            v = ELEMS[k][2]
            if not fits(v, w):
                return None
            out += (v % (1 << w)).to_bytes(w // 8, "big")
        return out
    if d == "FCC":
        return case["s"].encode("latin1")
    if d == "RMB":
        return bytes(case["n"])
    return b""


def cell_of(case):
    d = case["d"]
    if d in ("FCB", "FDB"):
        e = case["elems"]
        if len(e) <= 3:
            return "{}|{}".format(d, ",".join(ELEMS[k][0] for k in e))
        kinds = sorted(set(e), key=e.count, reverse=True)
        pos = e.index(kinds[1]) if len(kinds) > 1 else -1
        where = "-" if pos < 0 else ("first" if pos == 0 else "last" if pos == len(e) - 1 else "mid")
        return "{}|{}x{}+{}@{}".format(d, ELEMS[kinds[0]][0], "n" if len(e) > 3 else len(e), ELEMS[kinds[1]][0] if len(kinds) > 1 else "-", where)
    if d == "FCC":
        s = case["s"]
        shape = "".join("s" if c == " " else ";" if c == ";" else "," if c == "," else "q" if c in "\"'/" else "c" for c in s[:6])
        if len(s) > 6:
            shape = shape[:3] + "..x" + ("long" if len(s) > 40 else "mid")
        return "FCC|{}|{}|{}".format(case["delim"], shape or "empty", "cmt" if case["comment"] else "nocmt")
    if d == "RMB":
        n = case["n"]
        return "RMB|{}|{}".format("0" if n == 0 else "1..5" if n <= 5 else "6..32767" if n <= 32767 else "32768..65535", case["sp"])
    if d == "NONE":
        return "NONE|" + case["line"].strip()
    return "INCLUDE|empty"


def check_case(case):
    import os
    import tempfile
    lines, idx = build(case)
    if case["d"] == "INCLUDE":
        cwd = os.getcwd()
        with common.scratch_dir(chdir=False) as td:
            open(os.path.join(td, "empty.inc"), "w").close()
            os.chdir(td)
            try:
                out = common.assemble_confirm(lines)
            finally:
                os.chdir(cwd)
    else:
        out = common.assemble_confirm(lines, budget=20.0 if case["d"] == "RMB" else 5.0)
    want = expected(case)
    cell = cell_of(case)
    res = {"outcome": out["kind"], "state": out["kind"] + ":" + case["d"], "nontrivial": False}
    viol = []

    def bad(symptom, exp, obs):
        viol.append({"component": "data", "cell": cell, "symptom": symptom, "expected": exp, "observed": obs,
                     "input": dict(case, lines=lines)})

    if out["kind"] == "OK":
        image = out["image"]
        body = image[1:-1]
        a0, a1 = out["addrs"][idx], out["symbols"].get("ZZ9")
        if len(lines) == 2:      # unframed RMB near the top of memory
            image = b"\x12" + image + b"\x12"
            body = image[1:-1]
            a1 = a0 + len(body)
        if want is None:
            bad("element that does not fit the width accepted", "diagnostic", body.hex().upper()[:40])
        elif image[:1] != b"\x12" or image[-1:] != b"\x12" or len(image) < 2:
            bad("neighbouring statements disturbed", "12 .. 12", image.hex().upper()[:40])
        elif body != want:
            if len(body) != len(want):
                sym = "emits {} byte(s) for {} specified".format(_n(len(body), len(want)), "n")
            else:
                sym = "byte values differ"
            bad(sym, want.hex().upper()[:60], body.hex().upper()[:60])
        elif case["d"] != "NONE" or "ORG" not in case.get("line", ""):
            if a1 is None or a0 is None or a1 - a0 != len(want):
                bad("listing reserves a different size", len(want), "{}..{}".format(a0, a1))
        res["state"] = "{}:{}".format(case["d"], zlib.crc32(body))
        res["nontrivial"] = True
    elif out["kind"] == "DIAG":
        if want is not None:
            bad("valid directive rejected", want.hex().upper()[:40], common.outcome_brief(out))
    elif out["kind"] == "INTERNAL":
        if want is not None:
            bad("valid directive crashed", want.hex().upper()[:40], common.outcome_brief(out))
    if viol:
        res["viol"] = viol
    if zlib.crc32(repr(sorted(case.items())).encode()) % 4001 == 0:
        res["sample"] = {"line": lines[idx][:80], "outcome": common.outcome_brief(out)[:100]}
    return res


def _n(got, want):
    d = got - want
    return "{:+d}".format(d) if -4 <= d <= 4 else ("more" if d > 0 else "fewer")


def describe(tier):
    return {
        "alphabet": "FCB/FDB lists over element kinds {}; FCC over delimiters {} and strings over {}; RMB n; EQU/ORG/SETDP/NAM/END/INCLUDE; explicit lists with -0, $00, $0000, 007".format(
            [e[0] for e in ELEMS], DELIMS, STR_ALPHA),
        "bound": "FCB/FDB: all lists of length 1-2 (3: " + ("all" if tier == "thorough" else "a fixed 1/4 stride plus all with <=2 distinct kinds") +
                 "), homogeneous lists with one odd element at first/middle/last for every length 4..64; FCC: all strings of length <= " +
                 ("4" if tier == "thorough" else "3") + " per delimiter, every printable character alone and embedded, runs up to 255; RMB: " +
                 ("every n 0..65535" if tier == "thorough" else "0..299 and 10 boundary values"),
        "oracle": "bytes between the neighbouring NOPs = specification (two's complement at the directive width, high byte first); element that "
                  "does not fit => diagnostic; listing size = byte count",
        "rule": "complete enumeration; state = (directive, checksum of emitted bytes); non-trivial = accepted",
        "assumptions": ["EQ5 EQU 5 and LB=$3000 are the symbol elements"],
    }
