"""
C14 - every cassette image written is a well-formed CoCo tape stream.

Same write-side cases as C06 (every buffer the real writer produces there), second oracle: the strict
tape parser of mc/ref/tape.py over the whole buffer.
"""
import zlib

from .. import common
from .. import containers as C
from ..ref import tape
from . import c06

PROP = "C14"
CHUNK = 20


APPEND_FILES = [c06.ALPHA[0], c06.ALPHA[1], c06.ALPHA[6], c06.ALPHA[7], c06.ALPHA[8], c06.ALPHA[13],
                C.spec("MARKFF", n=300, pat="mFF.p0"), C.spec("MARK01", n=600, pat="m01.p2"),
                # addresses in the upper half and at the very top of memory (a rewritten tape carries them through the reader first)
                c06.ALPHA[12], C.spec("VECTORS", load=0xFFF2, exec_=0xFFFE, n=14), C.spec("IOPAGE", load=0xFF20, exec_=0xFF01, n=3),
                C.spec("HALF", load=0x8000, exec_=0x8001, n=2)]


# names outside the domain the property quantifies over (not printable ASCII): the writer may refuse them, but whatever image it
# does write must still be a well-formed stream
WIDE_NAMES = ["CAF\u00c9", "\u00ff", "\u00c0\u00c9\u00ce\u00d5\u00dc\u00d112", "A\u20acB", "\u65e5\u672c", "AB\x7f", "A\x01B"]


def cases(tier, seed):
    for c in c06.cases(tier, seed):
        if c["k"] == "write":
            yield c
    # files that carry no addresses (NoneValue): the name-file block still has its four address bytes
    for ft, dt in ((0, 0), (0, 0xFF), (1, 0xFF), (2, 0), (3, 0xFF)):
        for n in (1, 255, 300):
            yield {"k": "write", "files": [dict(C.spec("NOADDR", ftype=ft, dtype=dt, load=0, exec_=0, n=n), noaddr=True)]}
            yield {"k": "write", "files": [c06.ALPHA[0], dict(C.spec("NOADDR", ftype=ft, dtype=dt, load=0, exec_=0, n=n), noaddr=True), c06.ALPHA[1]]}
    # appending to a tape from elsewhere that the tool can list but that is not well formed (a wrong checksum byte, noise after
    # the last block or between files, minimal leaders): what the tool WRITES must be well formed all the same
    for base in ("badck", "noise.end", "noise.between", "lead1", "gaps"):
        for i in (0, 1, 6):
            yield {"k": "foreign", "base": base, "files": [APPEND_FILES[i]]}
    # the same through a host path that is a symbolic link to the tape (the rewritten tape is shorter than the recorded one)
    for base in ("gaps", "noise.end", "lead1", "gaps.long"):
        for i in (0, 6):
            yield {"k": "foreign", "base": base, "files": [APPEND_FILES[i]], "link": True}
    for i in (0, 6):
        yield {"k": "foreign", "base": "gaps.long", "files": [APPEND_FILES[i]]}
    for nm in WIDE_NAMES:
        for n in (0, 5, 300):
            yield {"k": "wname", "files": [C.spec(nm, n=n), C.spec("NEXT", n=3)]}
    # tapes written by file_util --to_cas from a DISK image (written by the independent disk writer): every order of text, data,
    # BASIC and machine-language files on the disk - what reaches the tape writer has gone through the disk reader first
    for fset in ([3, 0], [0, 3], [3, 2, 0], [8, 9, 0], [9, 8], [16, 1], [3, 16, 10], [10, 3], [18, 3, 19], [19, 18], [2, 3, 4], [3], [3, 8, 16, 0]):
        yield {"k": "fromdsk", "fset": fset}
    # images produced by appending (the tool re-reads the existing image and writes everything again)
    import itertools
    for tup in itertools.product(range(len(APPEND_FILES)), repeat=2):
        yield {"k": "append", "files": [APPEND_FILES[i] for i in tup]}
    for tup in itertools.product((0, 6, 7), repeat=3):
        yield {"k": "append", "files": [APPEND_FILES[i] for i in tup]}


FOREIGN_OLD = [C.spec("OLD1", n=300, pat="ramp", load=0x1000, exec_=0x1000), C.spec("OLD2", ftype=0, dtype=0xFF, load=0, exec_=0, n=20, pat="55"),
               C.spec("OLD3", n=14, pat="ramp7", load=0xFFF2, exec_=0xFFFE)]


FOREIGN_LONG = FOREIGN_OLD + [C.spec("OLD4", n=5000, pat="ramp7", load=0x2000, exec_=0x2000)]


def foreign_old(base):
    return FOREIGN_LONG if base == "gaps.long" else FOREIGN_OLD


def foreign_tape(base):
    files = [dict(name=s["name"], type=s["type"], dtype=s["dtype"], load=s["load"], exec=s["exec"], data=C.pattern(s["n"], s["pat"])) for s in foreign_old(base)]
    if base == "gaps.long":       # a long recording with a blank and a leader before every block: far longer than the tool's own rendering of the same files
        return tape.write(files, 128, 128, 16, 128)
    if base == "lead1":
        return tape.write(files, 1, 1, None, 0)
    if base == "gaps":
        return tape.write(files, 128, 128, 5, 128)
    b = bytearray(tape.write(files))
    if base == "badck":
        i = b.index(b"\x55\x3c\x01")
        b[i + 4 + b[i + 3]] ^= 0xFF
    elif base == "noise.end":
        b += b"\x13\x37\x42"
    elif base == "noise.between":
        j = b.index(b"\x55\x3c\xff\x00\xff\x55") + 6
        b[j:j] = b"\x00\x13\x00"
    return bytes(b)


def build_by_append(case):
    """each file is added by its own open / add / save(append) cycle on a host file, as --append does"""
    import os
    from cocoasm.virtualfiles.virtual_file import VirtualFile, VirtualFileType
    from cocoasm.virtualfiles.source_file import SourceFile, SourceFileType
    with common.scratch_dir(chdir=False) as d:
        path = os.path.join(d, "t.cas")
        if case["k"] == "foreign":
            open(path, "wb").write(foreign_tape(case["base"]))
        real = path
        if case.get("link"):
            path = os.path.join(d, "latest.cas")
            os.symlink("t.cas", path)
        for s in case["files"]:
            vf = VirtualFile(SourceFile(path, file_type=SourceFileType.BINARY), VirtualFileType.CASSETTE)
            vf.open_virtual_file()
            vf.add_coco_file(C.to_coco(s))
            vf.save_virtual_file(append_mode=True)
        return open(real, "rb").read()


def build_from_disk(case):
    import os
    from .. import cli
    from . import c16
    with common.scratch_dir(chdir=False) as d:
        src, tgt = os.path.join(d, "src.dsk"), os.path.join(d, "out.cas")
        specs = c16.write_source(src, "dsk", case["fset"])
        status, out = cli.file_util(src, to_cas=tgt)
        if status != 0 or not os.path.exists(tgt):
            raise RuntimeError("file_util --to_cas from a disk image: status {} {}".format(status, out[-80:]))
        return open(tgt, "rb").read(), specs


def check_case(case):
    cell = c06.cell_of(case) if case["k"] == "write" else ""
    res = {"nontrivial": True, "outcome": "ok"}
    viol = []

    def bad(symptom, expected, observed):
        viol.append({"component": "stream", "cell": cell, "symptom": symptom, "expected": expected, "observed": observed, "input": case})

    if case["k"] == "append":
        cell = "append|{}".format(",".join(s["name"] for s in case["files"]))
    if case["k"] == "foreign":
        cell = "append.foreign|{}|{}".format(case["base"], case["files"][0]["name"]) + ("|via-link" if case.get("link") else "")
    if case["k"] == "wname":
        cell = "wname|{}|{}".format(case["files"][0]["name"].encode("unicode_escape").decode(), case["files"][0]["n"])
    if case["k"] == "fromdsk":
        cell = "fromdsk|{}".format(",".join(map(str, case["fset"])))
    try:
        if case["k"] == "fromdsk":
            img, specs = build_from_disk(case)
            case = dict(case, files=[dict(sp, load=sp["load"] or 0, exec=sp["exec"] or 0) for sp in specs])
        else:
            img = build_by_append(case) if case["k"] in ("append", "foreign") else c06.build_image(case)
    except Exception as e:
        if case["k"] == "wname":        # refusing such a name writes no image: nothing to judge
            res["state"] = "wname-refused"
            res["outcome"] = "refused"
            return res
        t, w = common._raiser(e)
        bad("writer raised {}@{}".format(t, w), "image", repr(e)[:100])
        res["viol"] = viol
        res["state"] = "writer-error"
        return res
    try:
        files = tape.parse(img)
    except tape.TapeError as e:
        msg = str(e)
        kind = "checksum" if "checksum" in msg else "framing" if ("trailer" in msg or "sync" in msg or "filler" in msg) else \
            "length" if ("payload bytes" in msg or "runs past" in msg or "truncated" in msg) else "structure"
        bad("malformed stream: " + kind, "well-formed tape stream", msg)
        files = None
    if files is not None:
        want = case["files"] if case["k"] != "foreign" else foreign_old(case["base"]) + case["files"]
        if len(files) != len(want):
            bad("stream holds {} files for {} written".format(len(files), len(want)), len(want), len(files))
        else:
            for i, (s, f) in enumerate(zip(want, files)):
                data = C.pattern(s["n"], s["pat"])
                nm = s["name"].encode("latin1", "replace")[:8].ljust(8, b" ") if case["k"] != "wname" or i else f["name"]
                if case["k"] == "fromdsk":       # names and addresses of a transfer are C16's subject; here: the stream and its payloads
                    if f["data"] != data:
                        bad("payloads do not concatenate to the data", "{} bytes".format(len(data)), "{} bytes".format(len(f["data"])))
                    elif f["type"] != s["type"] or f["dtype"] != s["dtype"]:
                        bad("name-file block fields differ", "t{} d{}".format(s["type"], s["dtype"]), "t{} d{}".format(f["type"], f["dtype"]))
                    continue
                if f["data"] != data:
                    bad("payloads do not concatenate to the data", "{} bytes".format(len(data)), "{} bytes".format(len(f["data"])))
                elif f["name"] != nm or f["type"] != s["type"] or f["dtype"] != s["dtype"]:
                    bad("name-file block fields differ", "{} t{} d{}".format(nm, s["type"], s["dtype"]),
                        "{} t{} d{}".format(f["name"], f["type"], f["dtype"]))
                elif {f["a1"], f["a2"]} != {s["load"], s["exec"]} and (f["a1"], f["a2"]) != (s["load"], s["exec"]):
                    bad("name-file block addresses differ", "{:04X},{:04X}".format(s["load"], s["exec"]), "{:04X},{:04X}".format(f["a1"], f["a2"]))
                elif any(b > 255 or b < 1 for b in f["blocks"]):
                    bad("data block size out of 1..255", "1..255", str(f["blocks"][:5]))
    res["state"] = "img:{}".format(zlib.crc32(img))
    if viol:
        res["viol"] = viol
    if zlib.crc32(repr(case).encode()) % 101 == 0:
        res["sample"] = {"case": cell, "image_len": len(img), "blocks": [f["blocks"][:4] for f in (files or [])]}
    return res


def describe(tier):
    d = c06.describe(tier)
    d["alphabet"] += "; tapes written by file_util --to_cas from disk images of the independent writer (13 file orders of text / data / BASIC / ML files)"
    d["oracle"] = ("strict parse of the whole buffer: per file leader, name-file block with exactly 15 payload bytes (name[8], type, data type, "
                   "gap flag, two addresses), leader, data blocks of 1..255 bytes whose payloads concatenate to the data, EOF block; every block "
                   "$55 $3C type len payload cksum $55 with cksum = (type+len+sum) mod 256; only $00/$55 between blocks")
    d["alphabet"] = d["alphabet"].split("; read side")[0] + "; images built by per-file open/add/save(append) cycles; 7 names that are not printable ASCII (the writer may refuse them); files of every type without addresses; appending to 5 listable but malformed foreign tapes"
    return d
