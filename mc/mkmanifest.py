"""Regenerates /verif/MANIFEST.json from the table below (python -m mc.mkmanifest)."""
import json
import os

from . import common

PY = "/venv/bin/python"

# property -> (engine, technique, level text, level note, design ref)
CLAIMED = {}

TITLES = {}
for ln in open(os.path.join(common.VERIF, "properties.jsonl")):
    p = json.loads(ln)
    TITLES[p["id"]] = p["title"]

NOT_YET = "check not built yet in this session; see DESIGN.md section 10 for the build order"


def claim(pid, engine, technique, text, note, ref):
    CLAIMED[pid] = (engine, technique, text, note, ref)


claim("C01", "stmt_space",
      "bounded-exhaustive product enumeration of single statements on the real assembler, decoded by an independent MC6809 decoder",
      "Every mnemonic x every operand form of its datasheet row x every register/indirection x a boundary value set x every literal "
      "spelling x EQU/label routes is assembled by the real code and the bytes are decoded and compared with the intent; thorough adds the "
      "complete value range for 14 representative rows. Exhaustive within that product, nothing sampled.",
      "trusts ref_data/mc6809_opcodes.tsv (datasheet transcription) and mc/ref/m6809.py (decoder, self-tested); DP=0 only", "DESIGN.md 6 C01")

claim("C02", "prog_bfs",
      "breadth-first enumeration of statement sequences (depth <= 3/4) over a 83-template alphabet with label holes, on the real assembler; "
      "layout arithmetic oracle over listing, symbol table and image",
      "All statement sequences up to the stated depth, every label binding (defined/undefined/duplicate): listing address advance = bytes "
      "emitted (decoder / directive spec), hex column = image slice, image loads at origin as listed, symbol values, duplicate/undefined rejection.",
      "trusts the MC6809 decoder for instruction lengths; origin None read as 0", "DESIGN.md 6 C02")
claim("C03", "prog_bfs",
      "exhaustive distance sweeps and enumeration of 2-3 mutually dependent label,PCR statements on the real assembler; decoded target "
      "compared with the symbol table",
      "Every branch and indexed-capable mnemonic, forward/backward/self, every filler length in the stated ranges (0..140, +-10 around 32767), "
      "label+-k targets, several origins, bare n,PCR over the boundary value set, and all pairs/triples of PCR statements with every gap in "
      "112..132: the decoded displacement must reach symbol-table(label)+k; out-of-range short branches must be rejected.",
      "trusts the decoder; INTERNAL/HANG outcomes are reported by C13", "DESIGN.md 6 C03")
claim("C04", "stmt_space",
      "product enumeration of operand position x term x operator x term (literal spellings, EQU before/after use, labels before/after use) "
      "on the real assembler against integer arithmetic",
      "14 operand positions x single terms and all ordered term pairs x 4 operators: the decoded operand field must equal the arithmetic "
      "value modulo the field width; /0 must be diagnosed; out-of-range results rejected or reduced mod 65536.",
      "reference arithmetic is Python integer arithmetic with truncating division; tolerances listed in the evidence file", "DESIGN.md 6 C04")
claim("C05", "stmt_space",
      "product enumeration of FCB/FDB lists, FCC strings x delimiters, RMB counts and no-byte directives on the real assembler against the "
      "directive specification",
      "All value lists of length 1-3 over 18 element kinds and structured lists up to length 64, all short strings over a hostile alphabet for "
      "every delimiter, all printable characters, runs up to 255, RMB n (every n in thorough): emitted bytes = specification.", 
      "symbols in data lists are a recorded finding (KF-C05-1)", "DESIGN.md 6 C05")
claim("C12", "stmt_space",
      "exhaustive enumeration of operand text (all token strings up to length 3-5 over a 17-token alphabet, plus every form with "
      "out-of-range values / wrong registers / absent modes; symbol-using texts in a program at $2000 and in the zero page) on the real assembler, decoded by the independent decoder",
      "Whatever the assembler accepts must decode as exactly one instruction of that mnemonic whose length equals the space the listing "
      "reserves; texts that the documented grammar classifies as value-out-of-range, wrong-register or absent-mode must be rejected.",
      "trusts the decoder and the operand grammar of DESIGN.md appendix D (mc/ref/m6809.py parse_operand)", "DESIGN.md 6 C12")
claim("C13", "prog_bfs",
      "exhaustive enumeration of programs (all programs of the other walks, single-mutation closure of a corpus, all lines of <= 3-4 fields "
      "over a line alphabet, include graphs) under a watchdog; outcome classification by exception type and raising call site",
      "Every program must end with image+listing+symbols or a ParseError/TranslationError that names a statement; any other exception or a "
      "confirmed timeout is a violation identified by call site; rejected programs run through the command line must exit non-zero and "
      "create no file.",
      "hang = no result within 3 s and again within 12 s alone; in-process assembler.main stands for the command", "DESIGN.md 6 C13")

claim("C06", "container_bfs",
      "exhaustive sweeps of single-file parameters and all file lists up to length 2-3 through the real cassette writer and reader, plus "
      "streams from an independent tape writer with every leader/gap combination fed to the real reader",
      "Every data length (boundary set in quick, 0..65535 in thorough) x 14 content patterns incl. block-marker triples at every phase, names, "
      "types, every address (thorough), all lists <= 3 over a 14-file alphabet: list_files(written image) must equal the input; well-formed "
      "streams with leaders 0..999 and gaps are listed exactly.",
      "trusts mc/ref/tape.py (strict parser + writer, validated against each other at run time)", "DESIGN.md 6 C06")
claim("C07", "container_bfs",
      "exhaustive sweeps of file length/kind/name/fill order through the real disk writer and reader, cross-checked by an independent Disk BASIC "
      "reader; images from an independent writer with every chain of length <= 3 over 8 granules fed to the real reader",
      "Every length within 10 bytes of sector and granule boundaries (0..65535 in thorough) x 4 file kinds, 72 fill orders, file lists, and 400 "
      "arbitrary (descending, non-adjacent, track-17-crossing) chains x 6 stream-end classes: files come back exactly.",
      "trusts mc/ref/dskfs.py (reader, writer, fsck)", "DESIGN.md 6 C07")
claim("C08", "container_bfs",
      "independent Disk BASIC fsck evaluated on every image produced by the write side of C07, by fill-to-capacity histories, by refused "
      "additions on a live object, and by the two command line tools run onto pre-existing targets of every kind",
      "Chains in range, acyclic, terminated, disjoint; no orphan FAT entries; implied length = stream length; ML stream = header+data+trailer in "
      "chain order; nothing outside allocated granules/FAT/directory differs from a blank image.",
      "trusts mc/ref/dskfs.py fsck, written from the format description", "DESIGN.md 6 C08")
claim("C09", "container_bfs",
      "breadth-first enumeration of add/save/re-open histories (depth <= 3-4) on real host files through VirtualFile, against a list model and "
      "the independent readers",
      "All operation sequences over an 8-file colliding alphabet on cassette and disk, plus big-cassette histories crossing and landing "
      "exactly on 161,280 bytes: after every save the image lists the model list in order, and is recognised as the kind written.",
      "trusts the independent tape/disk readers", "DESIGN.md 6 C09")
claim("C10", "cli_bfs",
      "breadth-first enumeration of command-line invocation sequences on one target path (in-process assembler.main / file_util.main, plus real "
      "subprocesses for a conformance subset) against the save-gating model",
      "{--to_bin,--to_cas,--to_dsk} x {append,no append} x 10 pre-existing targets x 3 commands, all sequences of 2 (3 in thorough): the target "
      "changes only when absent or (append and same kind); refusals say why; what is written is a complete image holding old + new files. "
      "The target is also named through ./, an existing and a missing directory, a literal ~ and a symbolic link.",
      "target kind decided by the independent parsers; in-process driver validated against 66 real subprocess runs", "DESIGN.md 6 C10")
claim("C11", "cli_bfs",
      "product enumeration of program size x origin x NAM x --name x END x 7 switch subsets through assembler.main, outputs parsed by the "
      "independent readers",
      "Raw file = independently assembled image; cassette/disk hold one ML file with data = image, load = origin, entry in {origin, END operand}, "
      "name = NAM else --name (upper-cased, 8 chars); no name => no container file.",
      "the image itself is tied to the source by C01-C05", "DESIGN.md 6 C11")
claim("C14", "container_bfs",
      "strict independent tape parser evaluated on every buffer produced by the write side of C06, by appending, and by file_util --to_cas from disk images of the independent writer",
      "Every block framed 55 3C type len payload cksum 55 with the right checksum and length; name-file block of 15 bytes; data blocks 1..255; "
      "EOF block; nothing but 00/55 between blocks.",
      "trusts mc/ref/tape.py parse()", "DESIGN.md 6 C14")
claim("C15", "container_bfs",
      "breadth-first enumeration of fill-to-capacity histories on real DiskFile objects and through VirtualFile append, plus synthetic "
      "configurations (every number of free granules at 4 placements, 0..72 live directory entries) against a multiset allocator model",
      "needed = stream//2304+1; success iff needed <= free granules and a free slot; exactly `needed` previously free granules and one slot are "
      "consumed; failures raise and leave the host file byte-identical; a blank disk holds floor(68/k) files of k granules.",
      "FAT/directory read by mc/ref/dskfs.py", "DESIGN.md 6 C15")
claim("C16", "cli_bfs",
      "product enumeration of source image x target kind x every --files subset in three spellings x conversion chains through file_util.main, "
      "parsed by the independent readers",
      "Target lists exactly the selected files in source order with identical fields; cas>dsk>cas and dsk>cas>dsk return the original set; "
      "--to_bin writes the data and refuses multi-file images; several outputs in one run each equal the output produced alone; sources "
      "written the tool's way and Disk BASIC's way, with holes, gaps, short blocks, NUL-padded names, and reached through a symbolic link.",
      "sources written by the independent writers", "DESIGN.md 6 C16")
claim("C17", "interp_bfs",
      "inductive-invariant check on a deep fingerprint of all module-level state plus exhaustive history differential over corpus^3 against "
      "fresh interpreters under three hash seeds",
      "No assembly of any corpus program (accepted or rejected at any stage) changes module-level state, so the BFS over assembly histories "
      "closes at one state; independently every (Q1,Q2,P) triple yields for P exactly its fresh-process output; input lines are never modified; "
      "every one of the 120 orders of asking one assembly for its five outputs, and every subset of assembler.py's output flags, gives each "
      "output as it is when produced alone.",
      "fingerprint walker covers globals, class attributes, function defaults/closures/caches; workers are warm (extra history)", "DESIGN.md 6 C17")
claim("C18", "prog_bfs",
      "metamorphic exhaustive enumeration: every accepted base program of the C02 core walk x every transformation of a finite menu (10 origin "
      "shifts, 4 label bijections, 9 format variants, every statement template appended)",
      "Shift: only absolute own-label operands change, by exactly D; rename/whitespace/comment/case: identical output; suffix: old bytes, "
      "addresses and symbols unchanged; transformed programs stay accepted.",
      "instruction boundaries from listing addresses; absolute references identified by the generator", "DESIGN.md 6 C18")
claim("C19", "prog_bfs",
      "exhaustive enumeration of cut plans (single, double, nested to depth 3) of every base program into including/included files, assembled "
      "in a private directory and compared with the spliced single file; error graphs",
      "Image, listing addresses, symbol table and origin equal the spliced file for every cut; missing files and cycles are diagnosed (also "
      "through the command line: non-zero exit, no file).",
      "include paths relative to cwd", "DESIGN.md 6 C19")


def build():
    checks = []
    na = []
    for pid in sorted(TITLES):
        if pid in CLAIMED:
            engine, technique, text, note, ref = CLAIMED[pid]
            checks.append({
                "property_id": pid,
                "quick_cmd": "{} -m mc.run {} --tier quick".format(PY, pid),
                "thorough_cmd": "{} -m mc.run {} --tier thorough".format(PY, pid),
                "evidence_file": "/verif/evidence/{}.json".format(pid),
                "replay_cmd_template": PY + " -m mc.replay {path}",
                "engine": engine,
                "level_claimed": {"category": "model_checking", "text": text, "design_ref": ref},
                "level_note": note,
                "technique": technique,
            })
        else:
            na.append({"property_id": pid, "reason": NOT_YET})
    man = {
        "version": 1,
        "setup_cmd": PY + " -m mc.selftest",
        "hooks": {
            "guard": "COCOASM_VERIF",
            "enable": "no hooks exist: every seam used is public API; checks export COCOASM_VERIF=1 for forward compatibility",
            "baseline_off_cmd": "cd /repo && /venv/bin/python -m pytest -ra -q -p no:cacheprovider --timeout=900 --continue-on-collection-errors",
            "source_commits": [],
            "add_only": True,
        },
        "engines": [
            {"name": "stmt_space", "path": "mc/checks/c01.py", "serves_properties": ["C01", "C04", "C05", "C12"],
             "kind_free_text": "product enumeration of single statements through Program.process"},
            {"name": "prog_bfs", "path": "mc/checks/c02.py", "serves_properties": ["C02", "C03", "C13", "C18", "C19"],
             "kind_free_text": "breadth-first enumeration of statement sequences / program families through Program.process"},
            {"name": "container_bfs", "path": "mc/checks/c09.py", "serves_properties": ["C06", "C07", "C08", "C09", "C14", "C15"],
             "kind_free_text": "enumeration of container histories and single-file parameter sweeps on real CassetteFile/DiskFile/VirtualFile objects"},
            {"name": "cli_bfs", "path": "mc/checks/c10.py", "serves_properties": ["C10", "C11", "C16"],
             "kind_free_text": "enumeration of command-line invocation sequences in private directories (in-process main() + subprocess conformance)"},
            {"name": "interp_bfs", "path": "mc/checks/c17.py", "serves_properties": ["C17"],
             "kind_free_text": "assembly histories inside one interpreter; deep fingerprint of module-level state"},
        ],
        "checks": checks,
        "not_applicable": na,
        "notes": "All checks are bounded-exhaustive explicit-state exploration of the real Python implementation through its public seams; "
                 "see DESIGN.md. Known genuine defects are in KNOWN_FINDINGS.txt.",
    }
    with open(os.path.join(common.VERIF, "MANIFEST.json"), "w") as f:
        json.dump(man, f, indent=1)
    return man


if __name__ == "__main__":
    m = build()
    import jsonschema  # only present in the tooling venv; validation is optional
    jsonschema.validate(m, json.load(open("/root/.vp/MANIFEST.schema.json")))
    print("MANIFEST.json valid, {} checks, {} not_applicable".format(len(m["checks"]), len(m["not_applicable"])))
