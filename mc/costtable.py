"""
Maintainer tool: python -m mc.costtable <thorough-log> [<thorough-log> ...]
Rewrites the measured-cost table of DESIGN.md section 10 from the committed quick evidence files and the summary lines
('Cxx thorough seed=0 evaluations=.. states=.. wall=..s') of complete thorough runs (later logs override earlier ones).
"""
import json
import os
import re
import sys

from . import common

LINE = re.compile(r"^(C\d\d) thorough seed=\d+ evaluations=(\d+) states=(\d+) nontrivial=\d+ violations\(unlisted signatures\)=(\d+) known=\d+ wall=([\d.]+)s")


def main():
    thorough = {}
    for path in sys.argv[1:]:
        for ln in open(path):
            m = LINE.match(ln)
            if m:
                thorough[m.group(1)] = (int(m.group(2)), int(m.group(3)), int(m.group(4)), float(m.group(5)))
    rows = ["| property | quick: cases | distinct states | wall | thorough: cases | distinct states | wall |", "|---|---|---|---|---|---|---|"]
    tq = tt = 0.0
    for i in range(1, 20):
        p = "C{:02d}".format(i)
        e = json.load(open(os.path.join(common.VERIF, "evidence", p + ".json")))
        c = e["coverage"]
        t = thorough.get(p)
        tq += e["wall_s"]
        tt += t[3] if t else 0
        rows.append("| {} | {:,} | {:,} | {:.0f} s | {} | {} | {} |".format(
            p, c["evaluations"], c["states"], e["wall_s"], "{:,}".format(t[0]) if t else "-", "{:,}".format(t[1]) if t else "-",
            "{:.0f} s".format(t[3]) if t else "-"))
    rows.append("| all | | | {:.0f} s | | | {:.0f} s |".format(tq, tt))
    path = os.path.join(common.VERIF, "DESIGN.md")
    s = open(path).read()
    a = s.index("| property | quick: cases | distinct states | wall |")
    b = s.index("\n\n", a)
    open(path, "w").write(s[:a] + "\n".join(rows) + s[b:])
    print("\n".join(rows))


if __name__ == "__main__":
    main()
