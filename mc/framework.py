"""
Runner: enumerate a check's complete case space, evaluate the oracle on every case on the real
code, match violations against the committed known-findings file, write replay artefacts and the
evidence file.

A check module provides
    PROP            property id
    TITLE           one line
    def cases(tier, seed)      -> iterator of JSON-serialisable cases (the COMPLETE bounded space)
    def check_case(case)       -> {"viol":[{component,cell,symptom,expected,observed}], "state":str,
                                   "nontrivial":bool, "outcome":str, "transitions":int (default 1)}
    def describe(tier)         -> {"alphabet":..., "bound":..., "oracle":..., "rule":..., "assumptions":[...]}
    CHUNK           optional chunk size for the pool
"""
import fnmatch
import hashlib
import importlib
import json
import os
import random
import sys
import time

from . import common

FINDINGS_FILE = os.path.join(common.VERIF, "KNOWN_FINDINGS.txt")
REPLAY_DIR = os.path.join(common.VERIF, "replays")
EVIDENCE_DIR = os.path.join(common.VERIF, "evidence")
MAX_REPLAYS = 40


def load_findings(prop):
    out = []
    if not os.path.exists(FINDINGS_FILE):
        return out
    for ln in open(FINDINGS_FILE):
        ln = ln.strip()
        if not ln.startswith("finding:"):
            continue
        head, _, text = ln[len("finding:"):].partition("::")
        head = head.strip()
        p = head.split()[0]
        fid = head.split()[1]
        assert p.startswith("property=") and fid.startswith("id="), ln
        if p[len("property="):] != prop:
            continue
        mj = head[head.index("match=") + len("match="):]
        match = json.loads(mj)
        out.append({"id": fid[3:], "match": match, "text": text.strip(), "hits": 0, "cells": set()})
    return out


def _cell_match(pattern, cell):
    pp = pattern.split("|")
    cc = cell.split("|")
    if len(pp) != len(cc):
        return False
    return all(fnmatch.fnmatchcase(c, p) for p, c in zip(pp, cc))


_CELLSETS = {}


def _cellset(relpath):
    """exact (cell TAB symptom) pairs of a finding, one per line, committed under /verif/findings (read-only at run time)"""
    if relpath not in _CELLSETS:
        with open(os.path.join(common.VERIF, relpath)) as f:
            _CELLSETS[relpath] = set(ln.rstrip("\n") for ln in f if ln.strip())
    return _CELLSETS[relpath]


def match_finding(findings, v):
    for f in findings:
        m = f["match"]
        if m.get("component") != v["component"]:
            continue
        syms = m["symptom"] if isinstance(m["symptom"], list) else [m["symptom"]]
        if v["symptom"] not in syms:
            continue
        if "cells_file" in m:
            if v["cell"] + "\t" + v["symptom"] in _cellset(m["cells_file"]):      # exact (cell, symptom) pairs
                return f
            continue
        cells = m["cell"] if isinstance(m["cell"], list) else [m["cell"]]
        if any(_cell_match(p, v["cell"]) for p in cells):
            return f
    return None


def sig_of(prop, v):
    return "{}|{}|{}|{}".format(prop, v["component"], v["cell"], v["symptom"])


def write_replay(prop, modname, v, case):
    sig = sig_of(prop, v)
    d = os.path.join(REPLAY_DIR, prop)
    os.makedirs(d, exist_ok=True)
    path = os.path.join(d, hashlib.sha1(sig.encode()).hexdigest()[:16] + ".json")
    doc = {"property": prop, "module": modname,
           "signature": {"component": v["component"], "cell": v["cell"], "symptom": v["symptom"]},
           "case": case, "expected": v.get("expected", ""), "observed": v.get("observed", ""),
           "repo_rev": common.git_rev(common.REPO)}
    with open(path, "w") as f:
        json.dump(doc, f, indent=1, sort_keys=True)
    return path


def run(modname, tier, seed, out=sys.stdout):
    mod = importlib.import_module(modname)
    prop = mod.PROP
    t0 = time.time()
    findings = load_findings(prop)
    desc = mod.describe(tier)
    rng = random.Random(seed)
    states = set()
    nontrivial = set()
    outcomes = {}
    evals = 0
    transitions = 0
    samples = []
    viol_groups = {}      # signature -> (violation, case, count)
    nviol = 0
    chunk = getattr(mod, "CHUNK", 200)
    failfast = bool(os.environ.get("VERIF_FAILFAST"))    # maintainer tool (mc.mutsweep): stop at the first unlisted violation
    stop = False
    for r in common.pmap(mod.check_case, mod.cases(tier, seed), chunk=chunk):
        evals += 1
        transitions += r.get("transitions", 1)
        sk = common.h64(r.get("state", ""))
        states.add(sk)
        if r.get("nontrivial"):
            nontrivial.add(sk)
        oc = r.get("outcome", "")
        outcomes[oc] = outcomes.get(oc, 0) + 1
        # deterministic reservoir of witnesses (seed only selects which ones are kept)
        if "sample" in r:
            if len(samples) < 6:
                samples.append(r["sample"])
            else:
                j = rng.randrange(evals)
                if j < 6:
                    samples[j] = r["sample"]
        for v in r.get("viol", []):
            nviol += 1
            s = sig_of(prop, v)
            if s not in viol_groups:
                viol_groups[s] = [v, v.get("input", r.get("sample")), 0]
            viol_groups[s][2] += 1
            if failfast and match_finding(findings, v) is None:
                stop = True
        if stop:
            break
    extra = {}
    if hasattr(mod, "finish") and not stop:
        extra = mod.finish(tier, seed) or {}
        for v in extra.pop("viol", []):
            nviol += 1
            s = sig_of(prop, v)
            if s not in viol_groups:
                viol_groups[s] = [v, v.get("input"), 0]
            viol_groups[s][2] += 1
    common.close_pool()
    common.cover_flush()

    unlisted = []
    for s in sorted(viol_groups):
        v, case, n = viol_groups[s]
        f = match_finding(findings, v)
        if f is not None:
            f["hits"] += n
            f["cells"].add(v["cell"])
        else:
            unlisted.append((s, v, case, n))
    for f in findings:
        if f["hits"]:
            print("KNOWN-FINDING: property={} {} {} ({} cells, {} cases)".format(
                prop, f["id"], f["text"], len(f["cells"]), f["hits"]), file=out)
        elif tier == "thorough":
            print("STALE-FINDING: property={} {} did not reproduce in this run ({})".format(
                prop, f["id"], tier), file=out)
    shown = 0
    for s, v, case, n in unlisted:
        if shown < MAX_REPLAYS:
            path = write_replay(prop, modname, v, case)
            print("VIOLATION property={} replay={}".format(prop, path), file=out)
            print("  cell={} symptom={} (x{})".format(v["cell"], v["symptom"], n), file=out)
            print("  expected: {}".format(str(v.get("expected", ""))[:200]), file=out)
            print("  observed: {}".format(str(v.get("observed", ""))[:200]), file=out)
        shown += 1
    if shown > MAX_REPLAYS:
        print("  ... {} further distinct violation signatures not written out".format(shown - MAX_REPLAYS), file=out)

    if os.environ.get("VERIF_DUMP"):
        with open(os.environ["VERIF_DUMP"], "w") as f:
            for s, (v, case, n) in sorted(viol_groups.items()):
                f.write(json.dumps({"component": v["component"], "cell": v["cell"], "symptom": v["symptom"], "n": n,
                                    "expected": v.get("expected"), "observed": v.get("observed"), "case": case,
                                    "known": match_finding(findings, v) is not None}, default=str) + "\n")
    wall = time.time() - t0
    cov = {
        "states": len(states),
        "transitions": transitions,
        "traces_validated_against_impl": transitions,
        "evaluations": evals,
        "distinct_nontrivial": len(nontrivial),
        "rule": desc.get("rule", ""),
        "samples": samples[:6] if samples else [{"note": "no sample recorded"}],
        "exhaustive": True,
        "alphabet": desc.get("alphabet"),
        "bound": desc.get("bound"),
        "oracle": desc.get("oracle"),
        "outcome_histogram": dict(sorted(outcomes.items(), key=lambda kv: -kv[1])[:40]),
        "violation_signatures_total": len(viol_groups),
        "violation_signatures_known": len(viol_groups) - len(unlisted),
        "violating_cases_total": nviol,
        "known_findings_matched": {f["id"]: f["hits"] for f in findings if f["hits"]},
        "repo_rev": common.git_rev(common.REPO),
        "caps_hit": extra.pop("caps_hit", []),
    }
    cov.update(extra)
    if cov["caps_hit"]:
        cov["exhaustive"] = False
    ev = {
        "property_id": prop,
        "tier": tier,
        "seed": seed,
        "level": "model_checking",
        "coverage": cov,
        "assumptions": desc.get("assumptions", []),
        "wall_s": round(wall, 2),
        "violations": len(unlisted),
    }
    if common.REPO == "/repo" and not os.environ.get("VERIF_NO_EVIDENCE") and not failfast:
        os.makedirs(EVIDENCE_DIR, exist_ok=True)
        with open(os.path.join(EVIDENCE_DIR, prop + ".json"), "w") as f:
            json.dump(ev, f, indent=1, sort_keys=True, default=str)
    print("{} {} seed={} evaluations={} states={} nontrivial={} violations(unlisted signatures)={} "
          "known={} wall={:.1f}s".format(prop, tier, seed, evals, len(states), len(nontrivial), len(unlisted),
                                         len(viol_groups) - len(unlisted), wall), file=out)
    return 1 if unlisted else 0
