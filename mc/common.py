"""
Shared services for the model-checking harness: locating the repository under test,
running one assembly and classifying its outcome, parsing the user-visible listing and
symbol table, and a fork pool for exhaustive enumeration.

Nothing here looks below the public seams listed in DESIGN.md section 1.
"""
import contextlib
import hashlib
import io
import json
import multiprocessing
import os
import re
import signal
import sys
import time
import traceback

VERIF = os.path.dirname(os.path.dirname(os.path.abspath(__file__)))
REPO = os.path.abspath(os.environ.get("VERIF_REPO", "/repo"))
NPROC = int(os.environ.get("VERIF_NPROC", str(min(16, os.cpu_count() or 1))))

sys.dont_write_bytecode = True
os.environ.setdefault("PYTHONDONTWRITEBYTECODE", "1")
# the guard named in MANIFEST.hooks; no hook exists in the repository (all seams are public),
# it is exported so that a future hook would be switched on for every check.
os.environ.setdefault("COCOASM_VERIF", "1")


def import_repo():
    """Put the working tree of the repository under test first on sys.path."""
    if not sys.path or sys.path[0] != REPO:
        sys.path.insert(0, REPO)


import_repo()


class Hang(BaseException):
    """Raised by the watchdog; BaseException so the code under test cannot swallow it."""


def _on_alarm(signum, frame):
    raise Hang()


@contextlib.contextmanager
def watchdog(seconds):
    if seconds is None:
        yield
        return
    old = signal.signal(signal.SIGALRM, _on_alarm)
    signal.setitimer(signal.ITIMER_REAL, seconds)
    try:
        yield
    finally:
        signal.setitimer(signal.ITIMER_REAL, 0)
        signal.signal(signal.SIGALRM, old)


LISTING_RE = re.compile(r"^\$([0-9A-Fa-f]*) (.{10}) (.*)$", re.S)
SYMBOL_RE = re.compile(r"^\$([0-9A-Fa-f]*)\s+(\S+)$")


def parse_listing_line(line):
    """-> (address:int|None, hexcolumn:str (whole bytes only), rest:str)"""
    m = LISTING_RE.match(line)
    if not m:
        return None, "", line
    a = m.group(1)
    addr = int(a, 16) if a else None
    hx = m.group(2).strip()
    if len(hx) % 2:
        hx = hx[:-1]          # a lone nibble is cosmetic (RMB 0 prints "0"), not a byte
    return addr, hx, m.group(3)


def _raiser(exc):
    """(exception type name, innermost function inside the repository that raised it)"""
    tb = exc.__traceback__
    frames = []
    for fs in traceback.extract_tb(tb):
        fn = fs.filename
        if fn.startswith(REPO):
            frames.append("{}:{}".format(os.path.basename(fn)[:-3], fs.name))
    where = ">".join(frames[-3:]) if frames else "?"
    return type(exc).__name__, where


def assemble(lines, budget=5.0, want_program=False, raw=False):
    """
    Lines are given the trailing newline readlines() would give them unless raw=True.

    Assemble `lines` through Program.process and classify the outcome.

    OK       {"kind","image":bytes,"listing":[str],"addrs":[int],"hex":[str],"symbols":{name:int},
              "origin":int|None,"name":str|None}
    DIAG     {"kind","exc":"ParseError"|"TranslationError","msg":str,"stmt":str}
    INTERNAL {"kind","exc":str,"where":str,"stage":str}
    HANG     {"kind"}
    """
    from cocoasm.program import Program
    from cocoasm.exceptions import ParseError, TranslationError
    if not raw:
        lines = [ln if ln.endswith("\n") else ln + "\n" for ln in lines]
    program = Program()
    stage = "process"
    try:
        with watchdog(budget):
            program.process(lines)
            stage = "get_binary_array"
            arr = program.get_binary_array()
            image = bytes(arr)
            stage = "get_statements"
            listing = program.get_statements()
            stage = "get_symbol_table"
            symlines = program.get_symbol_table()
            stage = "origin"
            origin = None if program.origin.is_none() else program.origin.int
            name = program.name
    except (ParseError, TranslationError) as e:
        try:
            stmt = str(e.statement)
        except Exception as e2:  # rendering the statement is part of the diagnostic
            return {"kind": "INTERNAL", "exc": type(e2).__name__, "where": _raiser(e2)[1],
                    "stage": "diagnostic-render"}
        return {"kind": "DIAG", "exc": type(e).__name__, "msg": str(e.value), "stmt": stmt}
    except Hang:
        return {"kind": "HANG"}
    except Exception as e:
        t, w = _raiser(e)
        return {"kind": "INTERNAL", "exc": t, "where": w, "stage": stage}
    addrs, hexes = [], []
    for ln in listing:
        a, h, _ = parse_listing_line(ln)
        addrs.append(a)
        hexes.append(h)
    symbols = {}
    for s in symlines:
        m = SYMBOL_RE.match(s)
        if m:
            symbols[m.group(2)] = int(m.group(1), 16) if m.group(1) else None
    out = {"kind": "OK", "image": image, "listing": listing, "addrs": addrs, "hex": hexes,
           "symbols": symbols, "origin": origin, "name": name}
    if want_program:
        out["program"] = program
    return out


_HANGS = {"confirmed": 0}


def assemble_confirm(lines, budget=5.0, raw=False):
    """assemble(); a HANG verdict is confirmed by a second, 4x longer, run (load cannot fake it)."""
    out = assemble(lines, min(budget, 1.5) if _HANGS["confirmed"] >= 3 else budget, raw=raw)
    if out["kind"] == "HANG":
        # once this worker has seen three confirmed hangs the tree under test evidently can hang: later timeouts are
        # confirmed with a shorter second run so that a hanging mutant does not cost hours (a verdict still needs two timeouts)
        out = assemble(lines, budget * 4 if _HANGS["confirmed"] < 3 else 3.0, raw=raw)
        if out["kind"] == "HANG":
            _HANGS["confirmed"] += 1
    return out


def outcome_brief(out):
    k = out["kind"]
    if k == "OK":
        return "OK image={} origin={}".format(out["image"].hex().upper()[:64], out["origin"])
    if k == "DIAG":
        return "DIAG {}: {}".format(out["exc"], out["msg"])
    if k == "INTERNAL":
        return "INTERNAL {}@{} ({})".format(out["exc"], out["where"], out["stage"])
    return k


def h64(s):
    if isinstance(s, str):
        s = s.encode()
    return hashlib.blake2b(s, digest_size=8).digest()


# --------------------------------------------------------------------------------------
# parallel exhaustive map


# maintainer tool: VERIF_COVER=<path prefix> records which lines of the tree under test the run executes (sys.monitoring,
# each location reported once); every process appends its new lines to <prefix>.<pid>
_COVER = os.environ.get("VERIF_COVER")
_cover_hits = set()
_cover_flushed = set()
if _COVER:
    _mon = sys.monitoring

    def _cover_line(code, lineno):
        fn = code.co_filename
        if fn.startswith(REPO):
            _cover_hits.add((fn[len(REPO) + 1:], lineno))
        return _mon.DISABLE
    _mon.use_tool_id(_mon.COVERAGE_ID, "verif-cover")
    _mon.register_callback(_mon.COVERAGE_ID, _mon.events.LINE, _cover_line)
    _mon.set_events(_mon.COVERAGE_ID, _mon.events.LINE)


def cover_flush():
    if not _COVER:
        return
    new = _cover_hits - _cover_flushed
    if new:
        with open("{}.{}".format(_COVER, os.getpid()), "a") as f:
            for fn, ln in sorted(new):
                f.write("{}:{}\n".format(fn, ln))
        _cover_flushed.update(new)


def _run_chunk(args):
    fn, chunk = args
    res = []
    for case in chunk:
        try:
            res.append(fn(case))
        except Hang:
            res.append({"viol": [{"component": "harness", "cell": "hang", "symptom": "harness watchdog",
                                  "input": case}], "state": "HARNESS-HANG"})
        except Exception:
            res.append({"viol": [{"component": "harness", "cell": "crash",
                                  "symptom": "harness exception: " + traceback.format_exc()[-400:],
                                  "input": case}], "state": "HARNESS-CRASH"})
    cover_flush()
    return res


def chunked(it, n):
    buf = []
    for x in it:
        buf.append(x)
        if len(buf) >= n:
            yield buf
            buf = []
    if buf:
        yield buf


_POOL = None


def pool():
    global _POOL
    if _POOL is None:
        ctx = multiprocessing.get_context("fork")
        _POOL = ctx.Pool(NPROC)
    return _POOL


def close_pool():
    global _POOL
    if _POOL is not None:
        _POOL.terminate()
        _POOL.join()
        _POOL = None


def pmap(fn, cases, chunk=200):
    """Apply fn to every case (complete enumeration), in parallel; yields results unordered."""
    if NPROC <= 1:
        for ch in chunked(cases, chunk):
            for r in _run_chunk((fn, ch)):
                yield r
        return
    p = pool()
    for res in p.imap_unordered(_run_chunk, ((fn, ch) for ch in chunked(cases, chunk))):
        for r in res:
            yield r


def git_rev(path):
    import subprocess
    try:
        r = subprocess.run(["git", "-C", path, "rev-parse", "--short", "HEAD"], capture_output=True, text=True)
        d = subprocess.run(["git", "-C", path, "status", "--porcelain", "--untracked-files=no"],
                           capture_output=True, text=True)
        return r.stdout.strip() + ("-dirty" if d.stdout.strip() else "")
    except Exception:
        return "unknown"


# --------------------------------------------------------------------------------------
# private scratch directories (one parent per worker process: creating many directories under one
# shared parent from 16 processes serialises on the parent's inode lock)

import atexit
import shutil
import tempfile

_SCRATCH = {"pid": None, "dir": None, "n": 0}


def _scratch_parent():
    if _SCRATCH["pid"] != os.getpid():
        _SCRATCH["pid"] = os.getpid()
        _SCRATCH["dir"] = tempfile.mkdtemp(prefix="mcw{}_".format(os.getpid()))
        _SCRATCH["n"] = 0
        atexit.register(shutil.rmtree, _SCRATCH["dir"], True)
    return _SCRATCH["dir"]


@contextlib.contextmanager
def scratch_dir(chdir=True):
    """a fresh empty private directory (removed afterwards); optionally the cwd for the duration"""
    parent = _scratch_parent()
    _SCRATCH["n"] += 1
    d = os.path.join(parent, "c{}".format(_SCRATCH["n"]))
    os.mkdir(d)
    cwd = os.getcwd()
    try:
        if chdir:
            os.chdir(d)
        yield d
    finally:
        if chdir:
            os.chdir(cwd)
        shutil.rmtree(d, ignore_errors=True)


def mkdtemp(prefix="x"):
    """drop-in for tempfile.mkdtemp under the per-process scratch parent (caller removes it)"""
    parent = _scratch_parent()
    _SCRATCH["n"] += 1
    d = os.path.join(parent, "{}{}".format(prefix, _SCRATCH["n"]))
    os.mkdir(d)
    return d
