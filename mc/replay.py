"""python -m mc.replay <replay.json>  -- re-run one recorded case against the repository, without the explorer."""
import importlib
import json
import sys

from . import framework


def main():
    doc = json.load(open(sys.argv[1]))
    mod = importlib.import_module(doc["module"])
    r = mod.check_case(doc["case"])
    sig = doc["signature"]
    hit = [v for v in r.get("viol", []) if v["component"] == sig["component"] and v["cell"] == sig["cell"]
           and v["symptom"] == sig["symptom"]]
    other = [v for v in r.get("viol", []) if v not in hit]
    print("case:", json.dumps(doc["case"])[:400])
    for v in r.get("viol", []):
        print("  violation cell={} symptom={}\n    expected: {}\n    observed: {}".format(
            v["cell"], v["symptom"], v.get("expected"), v.get("observed")))
    if hit:
        print("VIOLATION property={} replay={}".format(doc["property"], sys.argv[1]))
        sys.exit(1)
    if other:
        print("recorded signature no longer reproduces, but the case violates differently")
        print("VIOLATION property={} replay={}".format(doc["property"], sys.argv[1]))
        sys.exit(1)
    print("OK (recorded violation does not reproduce)")
    sys.exit(0)


if __name__ == "__main__":
    main()
