"""
C13 - assembly always terminates with output or a source-level diagnostic.

The termination/diagnostic oracle is evaluated on (a) every program of the C02/C03/C04/C05/C12 walks,
(b) a seed corpus closed under every single-line mutation operator at every position, (c) every line
of up to N fields over a line alphabet, (d) include graphs (cycles, missing files). Every rejected
program of (b)-(d) is also run through the command line in an empty directory with all three output
switches: exit status must be non-zero and the directory must stay empty.
"""
import argparse
import contextlib
import io
import itertools
import re
import os
import shutil
import tempfile
import zlib

from .. import common

PROP = "C13"
CHUNK = 200

README = """; Print HELLO WORLD on the screen
            NAM     HELLO           ; Name of the program
CHROUT      EQU     $A30A           ; Location of CHROUT routine
POLCAT      EQU     $A000           ; Location of POLCAT routine
            ORG     $0E00           ; Originate at $0E00
START       JSR     $A928           ; Clear the screen
            LDX     #MESSAGE        ; Load X index with start of message
PRINT       LDA     ,X+             ; Load next character of message
            CMPA    #0              ; Check for null terminator
            BEQ     FINISH          ; Done printing, wait for keypress
            JSR     CHROUT          ; Print out the character
            BRA     PRINT           ; Print next char
MESSAGE     FCC     "HELLO WORLD"
            FDB     $0              ; Null terminator
FINISH      JSR     [POLCAT]        ; Read keyboard
            BEQ     FINISH          ; No key pressed, wait for keypress
            JMP     $A027           ; Restart BASIC
            END     START
""".splitlines()

CLASSES = """        NAM CLS
VAL     EQU 5
        ORG $2000
BEGIN   LDA #VAL
        LDB <$10
        LDX >$0010
        LDY $1234
        STA 5,X
        STB -5,Y
        LDD 100,U
        STD -100,S
        LDU 1000,X
        STU [1000,X]
        LEAX TABLE,PCR
        LEAY [TABLE,PCR]
        LDA A,X
        LDA [D,Y]
        LDA ,X++
        STA ,--S
        JMP [$2000]
        JSR [BEGIN]
        LBRA BEGIN
        BNE BEGIN+1
        PSHS A,B,X
        TFR X,Y
        SWI
        LDX #BEGIN+1
TABLE   FCB 1,2,3
        FDB $1234,-1
        FCC /A B;C/
        RMB 4
        SETDP 0
        END BEGIN
""".splitlines()

PCRS = """S0      NOP
LA      LEAX LB,PCR
        RMB 120
LB      LDY LA,PCR
        RMB 125
LC      LDD [S3,PCR]
        BRA LC
S3      RTS
""".splitlines()

CORPUS = {"readme": README, "classes": CLASSES, "pcr": PCRS}
PUNCT = list("#<>[],+-$%'\"/;:.@*()=!&^?") + ["\t", "\x01", "\x7f", "\u00e9", "\u20ac", "\u0100"]


_FCC_RE = re.compile(r"^([^\s;]*)[ \t]+([Ff][Cc][Cc])[ \t]+(.*)$")


def split_fields(line):
    """-> (label, mnemonic, operand, comment) by the documented column layout"""
    if not line.strip() or line.strip().startswith(";"):
        return None
    m = _FCC_RE.match(line)
    if m and m.group(3) and m.group(3)[0] not in " \t" and m.group(3).find(m.group(3)[0], 1) > 0:
        # FCC: the operand is the text between a matching pair of delimiters, verbatim (it may hold ';', spaces, tabs)
        text = m.group(3)
        end = text.find(text[0], 1)
        return m.group(1), m.group(2), text[:end + 1], text[end + 1:].strip().lstrip(";").strip()
    body, _, comment = line.partition(";")
    label = "" if body[:1] in (" ", "\t") else body.split()[0]
    rest = body[len(label):].split(None, 1)
    mnem = rest[0] if rest else ""
    operand = rest[1].rstrip() if len(rest) > 1 else ""
    return label, mnem, operand, comment.strip()


def join_fields(label, mnem, operand, comment):
    s = "{} {} {}".format(label, mnem, operand)
    if comment:
        s += " ; " + comment
    return s


def line_mutations(line):
    f = split_fields(line)
    if f is None:
        return
    label, mnem, op, cm = f
    yield "del.label", join_fields("", mnem, op, cm)
    yield "del.mnem", join_fields(label, "", op, cm)
    yield "del.operand", join_fields(label, mnem, "", cm)
    yield "del.comment", join_fields(label, mnem, op, "")
    yield "dup.label", join_fields(label + label, mnem, op, cm)
    yield "dup.mnem", join_fields(label, mnem + mnem, op, cm)
    yield "dup.operand", join_fields(label, mnem, op + op, cm)
    yield "dup.operand.comma", join_fields(label, mnem, op + "," + op, cm)
    yield "two.operands", join_fields(label, mnem, op + " " + op, cm)
    yield "swap.label.mnem", join_fields(mnem, label, op, cm)
    yield "swap.mnem.operand", join_fields(label, op, mnem, cm)
    yield "swap.label.operand", join_fields(op, mnem, label, cm)
    yield "nospace", (label + mnem + op)
    yield "tabs", "\t".join([label, mnem, op])
    yield "lower", join_fields(label, mnem, op.lower(), cm)
    yield "comment.only.semicolons", join_fields(label, mnem, op, ";;;")
    if op:
        yield "drop.last", join_fields(label, mnem, op[:-1], cm)
        yield "drop.first", join_fields(label, mnem, op[1:], cm)
        for i in range(len(op) + 1):
            for p in PUNCT:
                yield "ins." + p, join_fields(label, mnem, op[:i] + p + op[i:], cm)
        for i in range(len(op)):
            yield "del.char", join_fields(label, mnem, op[:i] + op[i + 1:], cm)
    else:
        for p in PUNCT:
            yield "ins." + p, join_fields(label, mnem, p, cm)


LINE_ALPHA = ["L1", "", "END", "ORG", "EQU", "SET", "RMB", "FCB", "FDB", "FCC", "SETDP", "INCLUDE", "NAM", "LDA", "BRA", "LEAX",
              "#", "<", ">", "[", "]", ",", "+", "-", "$", "%", "'", "1", "7F", "X", "PCR", "E", "L", ";", '"']


def cases(tier, seed):
    thorough = tier == "thorough"
    # (a) programs of the other walks
    from . import c02, c03, c04, c05, c12
    for mod, name in ((c02, "c02"), (c03, "c03"), (c04, "c04"), (c05, "c05")):
        for lines in mod.all_programs(tier):
            yield {"src": name, "lines": lines}
    for c in c12.cases(tier, 0):
        if thorough or c["mnem"] in ("LDA", "LEAX", "BRA", "PSHS", "NEG", "LDX") or len(c["text"]) <= 3:
            yield {"src": "c12", "lines": c12.build(c)}
    # (b) mutation closure of the corpus
    for name, prog in CORPUS.items():
        yield {"src": "corpus." + name, "lines": prog}
        yield {"src": "mut.nonewline", "lines": prog, "raw_last": True}
        for i, ln in enumerate(prog):
            yield {"src": "mut.delline", "lines": prog[:i] + prog[i + 1:]}
            yield {"src": "mut.dupline", "lines": prog[:i + 1] + prog[i:]}
            if i + 1 < len(prog):
                yield {"src": "mut.swaplines", "lines": prog[:i] + [prog[i + 1], prog[i]] + prog[i + 2:]}
            for tag, m in line_mutations(ln):
                yield {"src": "mut." + tag.split(".")[0], "lines": prog[:i] + [m] + prog[i + 1:]}
    # (b2) operands that are nothing but a symbol of an unusual shape (defined or not): @ and digits, a leading digit, hex-looking, register-like
    for name in ("@8", "@9", "@19", "@98", "@", "@@", "9LIVES", "0X10", "EACH", "BH", "FFH", "1H", "X", "PC", "PCR", "A", "_Q", "Q_1", "a1", "L.1"):
        for tmpl in (" BNE {}", " JMP {}", " LDX {}", " LDA #{}", " LDA [{}]", " LDA {},X", " LEAX {},PCR", " FCB 1,{}", "ZQ EQU {}", " FDB {}", " ORG {}", " END {}"):
            yield {"src": "symshape", "lines": ["{} NOP".format(name), tmpl.format(name), " RTS"]}
            yield {"src": "symshape.undef", "lines": [" NOP", tmpl.format(name), " RTS"]}
    # (b3) symbols whose EQU operand is not one number (an expression, a pair, an alias, an operand of another shape), used alone and as
    # a term of label+-symbol in every operand position
    for d in ("1+1", "1,2", "L", "L+1", "Q2", "#5", "[5]", ",X", "5,X", "'A", "-3", "1+L", "A", "$"):
        for e in ("SYM", "L+SYM", "L-SYM", "SYM+L", "SYM+1", "SYM-L"):
            for tmpl in (" BNE {}", " LBRA {}", " JMP {}", " LDX {}", " LDA #{}", " LDA [{}]", " LDA {},X", " LEAX {},PCR", " FCB {}", "ZQ EQU {}", " FDB {}",
                         " RMB {}", " END {}"):
                yield {"src": "equshape", "lines": ["Q2 EQU 2", "L NOP", "SYM EQU {}".format(d), tmpl.format(e), " RTS"]}
                if e == "L+SYM" and tmpl in (" BNE {}", " LDX {}", " LEAX {},PCR"):
                    yield {"src": "equshape.later", "lines": ["Q2 EQU 2", "L NOP", tmpl.format(e), " RTS", "SYM EQU {}".format(d)]}
    # (c) lines over the line alphabet
    depth = 4 if thorough else 3
    for n in range(1, depth + 1):
        for tup in itertools.product(LINE_ALPHA, repeat=n):
            yield {"src": "alpha", "lines": ["E EQU 5", "L NOP", " ".join(tup)]}
    # (d) include graphs
    graphs = {
        "self": {"main.asm": [" NOP", " INCLUDE main.asm"]},
        "cycle2": {"main.asm": [" INCLUDE a.asm"], "a.asm": [" NOP", " INCLUDE main.asm"]},
        "cycle3": {"main.asm": [" INCLUDE a.asm"], "a.asm": [" INCLUDE b.asm"], "b.asm": ["X1 NOP", " INCLUDE a.asm"]},
        "missing": {"main.asm": [" NOP", " INCLUDE nothere.asm"]},
        "missing.nested": {"main.asm": [" INCLUDE a.asm"], "a.asm": [" INCLUDE nothere.asm"]},
        "empty": {"main.asm": [" NOP", " INCLUDE a.asm", " NOP"], "a.asm": []},
        "nonl": {"main.asm": [" NOP", " INCLUDE a.asm", " NOP"], "a.asm": ["RAW: NOP"]},
        "dir": {"main.asm": [" INCLUDE ."]},
        "ok.nested": {"main.asm": ["A1 NOP", " INCLUDE a.asm", " BRA A1"], "a.asm": ["B1 NOP", " INCLUDE b.asm"], "b.asm": ["C1 LEAX A1,PCR"]},
        "noname": {"main.asm": [" INCLUDE"]},
        "binary": {"main.asm": [" INCLUDE a.asm"], "a.asm": ["BIN:"]},
    }
    for name, files in graphs.items():
        yield {"src": "include." + name, "lines": files["main.asm"], "files": files}


def run_cli(lines_nl, files):
    """in-process assembler.py <file> --to_bin --to_cas --to_dsk in a private directory -> (exit status, new files, stdout)"""
    import assembler
    td = common.mkdtemp(prefix="c13_")
    cwd = os.getcwd()
    try:
        os.chdir(td)
        for fn, content in (files or {}).items():
            _write(fn, content)
        with open("main.asm", "w") as f:
            f.write("".join(lines_nl))
        before = sorted(os.listdir("."))
        ns = argparse.Namespace(filename="main.asm", symbols=True, print=True, to_bin="o.bin", to_cas="o.cas", to_dsk="o.dsk",
                                name="PROG", append=False, width=100)
        buf = io.StringIO()
        status = 0
        try:
            with contextlib.redirect_stdout(buf), common.watchdog(20):
                assembler.main(ns)
        except SystemExit as e:
            status = e.code if isinstance(e.code, int) else (0 if e.code is None else 1)
        except common.Hang:
            status = "HANG"
        except BaseException as e:       # a traceback: python would exit 1, but it is not a diagnostic
            status = "TRACEBACK " + type(e).__name__
        after = sorted(os.listdir("."))
        created = [x for x in after if x not in before]
        if status != 0 and not created:
            # second invocation: existing targets and --append; a rejected program must not modify them either
            pre = {"o.bin": b"\x12\x39", "o.cas": b"", "o.dsk": b"\xFF" * 161280}
            for fn, content in pre.items():
                with open(fn, "wb") as f:
                    f.write(content)
            ns.append = True
            buf2 = io.StringIO()
            try:
                with contextlib.redirect_stdout(buf2), common.watchdog(20):
                    assembler.main(ns)
            except BaseException:
                pass
            for fn, content in pre.items():
                if not os.path.exists(fn) or open(fn, "rb").read() != content:
                    created.append(fn + " (modified)")
        return status, created, buf.getvalue()
    finally:
        os.chdir(cwd)
        shutil.rmtree(td, ignore_errors=True)


def _write(fn, content):
    if os.path.dirname(fn):
        os.makedirs(os.path.dirname(fn), exist_ok=True)
    if content and content[0].startswith("LINK:"):       # a symbolic link to another file or directory of the set
        os.symlink(content[0][5:], fn)
        return
    with open(fn, "w") as f:
        if content and content[0].startswith("RAW:"):
            f.write(content[0][4:])
        elif content and content[0].startswith("BIN:"):
            f.close()
            with open(fn, "wb") as g:
                g.write(bytes(range(256)))
        else:
            f.write("".join(ln + "\n" for ln in content))


def check_case(case):
    lines = case["lines"]
    files = case.get("files")
    raw_last = case.get("raw_last")
    lines_nl = [ln + "\n" for ln in lines]
    if raw_last and lines_nl:
        lines_nl[-1] = lines_nl[-1][:-1]
    td = None
    cwd = os.getcwd()
    try:
        if files is not None:
            td = common.mkdtemp(prefix="c13i_")
            os.chdir(td)
            for fn, content in files.items():
                _write(fn, content)
        out = common.assemble_confirm(lines_nl, budget=3.0, raw=True)
    finally:
        if td:
            os.chdir(cwd)
            shutil.rmtree(td, ignore_errors=True)
    res = {"outcome": out["kind"], "nontrivial": out["kind"] in ("OK", "DIAG")}
    viol = []

    def bad(cell, symptom, expected, observed):
        viol.append({"component": "terminate", "cell": cell, "symptom": symptom, "expected": expected, "observed": observed,
                     "input": case})

    if out["kind"] == "OK":
        res["state"] = "OK"
    elif out["kind"] == "DIAG":
        res["state"] = "DIAG:" + out["exc"] + ":" + "".join(c for c in out["msg"] if not c.isdigit())[:40]
        stmt = out["stmt"].strip()
        toks = set()
        for ln in lines:
            toks.update(t for t in ln.replace(";", " ").split() if len(t) >= 1)
        for fl in (files or {}).values():
            for ln in fl:
                toks.update(t for t in ln.split())
        if not stmt or not any(t in stmt for t in toks):
            bad("diag|{}".format(out["exc"]), "diagnostic does not name a statement", "statement text", repr(out["stmt"])[:80])
    elif out["kind"] == "INTERNAL":
        res["state"] = "INTERNAL:{}@{}".format(out["exc"], out["where"])
        bad("{}@{}|{}".format(out["exc"], out["where"], out["stage"]), "internal error", "image or diagnostic", common.outcome_brief(out))
    else:
        res["state"] = "HANG"
        bad("hang|process", "does not terminate", "terminates", "no result after 3s and again after 12s")
    # command-line behaviour for rejected programs of the mutation / alphabet / include spaces
    if out["kind"] != "OK" and not case["src"].startswith("c") or case["src"].startswith("corpus"):
        status, created, stdout = run_cli(lines_nl, files)
        res["transitions"] = 2
        if out["kind"] == "OK":
            if status != 0 or sorted(created) != ["o.bin", "o.cas", "o.dsk"]:
                bad("cli|accepted", "accepted program not saved", "exit 0 and 3 files", "status={} files={}".format(status, created))
        else:
            if created:
                bad("cli|rejected", "output file created for a rejected program", "no file", str(created))
            if status == 0:
                bad("cli|rejected", "exit status 0 for a rejected program", "non-zero", "0")
            elif isinstance(status, str) and out["kind"] == "DIAG":
                bad("cli|rejected", "command line ends differently from Program.process", "clean exit", status)
    if viol:
        res["viol"] = viol
    if zlib.crc32(repr(lines).encode()) % 20011 == 0 or case["src"].startswith("include"):
        res["sample"] = {"src": case["src"], "lines": lines[:8], "outcome": common.outcome_brief(out)[:100]}
    return res


def describe(tier):
    return {
        "alphabet": "(a) all programs of the C02, C03, C04, C05 walks and " + ("all" if tier == "thorough" else "a 6-mnemonic slice + all short texts") +
                    " of C12's; (b) corpus (README example, one statement per operand class, interacting PCR program) closed under "
                    "line deletion/duplication/swap and per-line operators (delete/duplicate/swap each field, no separator, tabs, "
                    "lower-case operand, drop first/last operand char, delete each operand char, insert each of 24 punctuation characters at "
                    "every operand position, missing final newline); (c) every line of <= {} fields over {}; (d) 11 include graphs; (e) symbols whose EQU operand is not one number (expression, pair, alias, indexed / immediate / bracketed shapes, a register name) used alone and as a term of label+-symbol in 13 operand positions".format(
                        4 if tier == "thorough" else 3, LINE_ALPHA),
        "bound": "single mutations; lines of <= {} fields; include depth 3".format(4 if tier == "thorough" else 3),
        "oracle": "outcome in {image+listing+symbols, ParseError/TranslationError whose statement text names a token of the input}; any other "
                  "exception (from process, get_binary_array, get_statements, get_symbol_table) or a timeout confirmed at 4x budget is a "
                  "violation identified by (exception type, raising function); for rejected programs of (b)-(d) the command line "
                  "(in-process assembler.main, all three output switches, private empty directory) must exit non-zero and create no file, and a "
                  "second invocation with --append onto existing bin/cas/dsk targets must leave them byte-identical",
        "rule": "complete enumeration; state = outcome class (diagnostic kind+message class / internal call site); non-trivial = terminated",
        "assumptions": ["hang budget 3 s, confirmed alone at 12 s (typical program: < 5 ms)"],
    }
