"""
C02 - listing addresses, symbol values and the emitted image agree.

BFS over statement sequences (append-a-statement transitions) from a template alphabet with one
template per size-computation path; label holes are bound to every label defined in the sequence, to
an undefined label, and definitions are duplicated. Oracle: pure arithmetic over the user-visible
listing, symbol table and image (mc/ref: decoder for instruction lengths, directive spec for data).
"""
import itertools
import zlib

from .. import common
from ..ref import m6809 as R

PROP = "C02"
CHUNK = 300

# (tag, mnemonic, operand text ({L} = label hole), kind, spec)   kind: ins | data | none | equ | org
T = [
    ("inh1", "NOP", "", "ins", None),
    ("inh.swi", "SWI", "", "ins", None),
    ("inh.sync", "SYNC", "", "ins", None),
    ("inh2", "SWI2", "", "ins", None),
    ("imm8", "LDA", "#$12", "ins", None),
    ("imm8.neg", "LDB", "#-1", "ins", None),
    ("imm16", "LDX", "#$1234", "ins", None),
    ("imm16.p", "LDY", "#$1234", "ins", None),
    ("imm16.small", "LDX", "#1", "ins", None),
    ("dir", "LDA", "$12", "ins", None),
    ("ext", "LDA", "$1234", "ins", None),
    ("dir.p", "LDY", "$12", "ins", None),
    ("ext.p", "LDY", "$1234", "ins", None),
    ("dir.forced", "STA", "<$12", "ins", None),
    ("ext.forced", "STA", ">$12", "ins", None),
    ("ext.lbl", "JMP", "{L}", "ins", None),
    ("ext.lbl.p", "STY", "{L}", "ins", None),
    ("ext.lbl+1", "JSR", "{L}+1", "ins", None),
    ("imm.lbl", "LDX", "#{L}", "ins", None),
    ("imm.lbl+1", "LDD", "#{L}+1", "ins", None),
    ("pcr.lbl+2", "LEAY", "{L}+2,PCR", "ins", None),
    ("pcr.lbl-1.ind", "LDA", "[{L}-1,PCR]", "ins", None),
    ("pcr.lbl-3", "LEAX", "{L}-3,PCR", "ins", None),
    ("bra.lbl-2", "BNE", "{L}-2", "ins", None),
    ("idx.lbl+1", "LDA", "{L}+1,S", "ins", None),
    ("extind.lbl+1", "JMP", "[{L}+1]", "ins", None),
    ("bra.lbl+1", "BEQ", "{L}+1", "ins", None),
    ("dir.lbl", "LDA", "<{L}", "ins", None),
    ("imm.lbl.p", "LDY", "#{L}", "ins", None),
    ("idx.zero", "LDA", ",X", "ins", None),
    ("idx.off5", "LDA", "5,X", "ins", None),
    ("idx.off5n", "LDA", "-5,Y", "ins", None),
    ("idx.off8", "LDA", "100,X", "ins", None),
    ("idx.off8n", "LDA", "-100,X", "ins", None),
    ("idx.off16", "LDA", "1000,X", "ins", None),
    ("idx.off16n", "LDA", "-1000,X", "ins", None),
    ("idx.off8.p", "LDY", "100,X", "ins", None),
    ("idx.off8n.p", "LDY", "-100,X", "ins", None),
    ("idx.off16.p", "STY", "1000,U", "ins", None),
    ("idx.off8.r16", "LDX", "100,Y", "ins", None),
    ("idx.off8.lea", "LEAX", "100,Y", "ins", None),
    ("idx.lbl", "LDA", "{L},X", "ins", None),
    ("idx.lbl.p", "STY", "{L},U", "ins", None),
    ("ind.lbl", "LDB", "[{L},Y]", "ins", None),
    ("idx.acc", "LDA", "B,U", "ins", None),
    ("idx.inc1", "LDA", ",X+", "ins", None),
    ("idx.inc2", "LDD", ",X++", "ins", None),
    ("idx.dec1", "STA", ",-S", "ins", None),
    ("idx.dec2", "STD", ",--S", "ins", None),
    ("ind.zero", "LDA", "[,X]", "ins", None),
    ("ind.off8", "LDA", "[100,X]", "ins", None),
    ("ind.off8n", "LDA", "[-100,X]", "ins", None),
    ("ind.off16", "LDA", "[1000,X]", "ins", None),
    ("ind.off5", "LDA", "[5,X]", "ins", None),
    ("ind.acc", "LDA", "[D,Y]", "ins", None),
    ("ind.inc2", "LDA", "[,X++]", "ins", None),
    ("extind", "JMP", "[$1234]", "ins", None),
    ("extind.small", "JMP", "[$12]", "ins", None),
    ("extind.lbl", "JSR", "[{L}]", "ins", None),
    ("pcr8", "LDA", "10,PCR", "ins", None),
    ("pcr16", "LDA", "1000,PCR", "ins", None),
    ("pcr.lbl", "LEAX", "{L},PCR", "ins", None),
    ("pcr.lbl.p", "LDY", "{L},PCR", "ins", None),
    ("pcr.lbl.ind", "LDA", "[{L},PCR]", "ins", None),
    ("bra", "BRA", "{L}", "ins", None),
    ("bne", "BNE", "{L}", "ins", None),
    ("bsr", "BSR", "{L}", "ins", None),
    ("lbra", "LBRA", "{L}", "ins", None),
    ("lbne", "LBNE", "{L}", "ins", None),
    ("lbsr", "LBSR", "{L}", "ins", None),
    ("psh", "PSHS", "A,B,X", "ins", None),
    ("tfr", "TFR", "X,Y", "ins", None),
    ("fcb1", "FCB", "1", "data", 1),
    ("fcb3", "FCB", "1,2,3", "data", 3),
    ("fdb1", "FDB", "$1234", "data", 2),
    ("fdb2", "FDB", "1,2", "data", 4),
    ("fdb.hex2", "FDB", "$80", "data", 2),
    ("fdb.bin8", "FDB", "%00010000", "data", 2),
    ("fdb.chr", "FDB", "'A", "data", 2),
    ("fcb.hex4", "FCB", "$0005", "data", 1),
    ("fcb.bin16", "FCB", "%0000000000000101", "data", 1),
    ("fcb.neg", "FCB", "-1", "data", 1),
    # lists with an empty entry (a trailing or doubled comma): accepted as they are today, an empty entry contributes no byte -
    # a rejection would be as good; what counts here is that listing, symbols and image agree
    ("fcb.trail", "FCB", "1,2,", "data", 2),
    ("fdb.gap", "FDB", "$1234,,5", "data", 4),
    ("fcb.lead", "FCB", ",7", "data", 1),
    ("fcc2", "FCC", '"AB"', "data", 2),
    ("fcc11", "FCC", "/HELLO WORLD/", "data", 11),
    ("fcc.latin1", "FCC", "/CAF\u00c9 \u00ff\u0080/", "data", 7),        # characters $80-$FF are one byte each
    ("rmb0", "RMB", "0", "data", 0),
    ("rmb1", "RMB", "1", "data", 1),
    ("rmb7", "RMB", "7", "data", 7),
    ("rmb300", "RMB", "300", "data", 300),
    ("equ16", "EQU", "$1234", "equ", 0x1234),
    ("equ8", "EQU", "$12", "equ", 0x12),
    ("equ.dec", "EQU", "5", "equ", 5),
    ("equ.lbl", "EQU", "{L}", "equ", None),
    ("org0", "ORG", "0", "org", 0),
    ("org10", "ORG", "$10", "org", 0x10),
    ("orgFF", "ORG", "$FF", "org", 0xFF),
    ("org100", "ORG", "$100", "org", 0x100),
    ("org0E00", "ORG", "$0E00", "org", 0x0E00),
    ("orgFFF0", "ORG", "$FFF0", "org", 0xFFF0),
    ("org.lbl", "ORG", "{L}", "org", None),
    # a negative origin: refused today; were it accepted, the program would have to sit where the listing says (two's complement)
    ("org.neg", "ORG", "-256", "org", 0xFF00),
    ("setdp", "SETDP", "0", "none", None),
    ("nam", "NAM", "TEST", "none", None),
    ("end", "END", "", "none", None),
    ("end.lbl", "END", "{L}", "none", None),
    ("end.lbl+1", "END", "{L}+1", "none", None),
]
TAGS = {t[0]: t for t in T}
CORE = ["inh1", "inh.swi", "imm8", "imm16.p", "dir", "ext", "ext.lbl", "imm.lbl", "idx.off5", "idx.off8n", "idx.off16",
        "idx.off8.r16", "idx.lbl", "ind.lbl", "extind.lbl", "pcr.lbl", "pcr.lbl.ind", "bra", "lbne", "fcb3", "fcc11", "rmb7", "equ8", "equ16",
        "org10", "org0E00", "org.lbl", "equ.lbl", "end"]


def label_options(seq_tags, i):
    """bindings for the hole of statement i: each defined label, and one undefined name"""
    if "{L}" not in TAGS[seq_tags[i]][2]:
        return [None]
    return ["L{}".format(j) for j in range(len(seq_tags))] + ["UNDEF"]


def programs_for(seq_tags, variants=("all",)):
    """yield (lines, meta) for one tag sequence: every hole binding x labelling variant"""
    n = len(seq_tags)
    opts = [label_options(seq_tags, i) for i in range(n)]
    for bind in itertools.product(*opts):
        for variant in variants:
            yield {"tags": list(seq_tags), "bind": list(bind), "variant": variant}


def build(case):
    tags, bind, variant = case["tags"], case["bind"], case["variant"]
    n = len(tags)
    referenced = set(b for b in bind if b)
    lines = []
    labels = []
    for i, tg in enumerate(tags):
        _, mnem, optxt, kind, _ = TAGS[tg]
        lab = "L{}".format(i)
        if variant == "min" and kind != "equ" and lab not in referenced:
            lab = ""
        if variant in ("dup", "duplow") and i == n - 1 and n >= 2:
            lab = "L0" if kind != "equ" or True else lab
        if bind[i]:
            optxt = optxt.replace("{L}", bind[i])
        labels.append(lab)
        lines.append("{} {} {}".format(lab, mnem, optxt))
    if variant == "dig":
        import re as _re
        lines = [_re.sub(r"\bL(\d)\b", lambda m: m.group(1) + "DIG", _re.sub(r"\bUNDEF\b", "9UNDEF", ln)) for ln in lines]
    if variant in ("low", "duplow"):        # labels spelt with lower-case letters: loop0, loop1 ... (names are case-sensitive)
        import re as _re
        lines = [_re.sub(r"\bL(\d)\b", lambda m: "loop" + m.group(1), _re.sub(r"\bUNDEF\b", "nowhere", ln)) for ln in lines]
    return lines, labels


def cases(tier, seed):
    yield from row_cases()
    tags = [t[0] for t in T]
    # depth 1 and 2 over the full alphabet, both labelling variants
    for t in tags:
        yield from programs_for((t,), ("all", "min", "dig"))
    for a in tags:
        for b in tags:
            yield from programs_for((a, b), ("all", "min"))
            yield {"tags": [a, b], "bind": [("L0" if "{L}" in TAGS[x][2] else None) for x in (a, b)], "variant": "dup"}
    for a in CORE:
        for b in CORE:
            yield from programs_for((a, b), ("dig",))        # labels spelt 0DIG, 1DIG ...: a name may start with a digit
            yield from programs_for((a, b), ("low",))        # labels spelt loop0, loop1 ...
    for a in tags:
        for b in tags:
            yield {"tags": [a, b], "bind": [("L0" if "{L}" in TAGS[x][2] else None) for x in (a, b)], "variant": "duplow"}
    core = CORE if tier == "quick" else tags
    for a in core:
        for b in core:
            for c in core:
                yield from programs_for((a, b, c), ("all",))
    if tier == "thorough":
        for seq in itertools.product(CORE, repeat=4):
            # depth 4 over the core: holes bound to the nearest other label, the farthest and self
            n = 4
            opts = []
            for i in range(n):
                if "{L}" in TAGS[seq[i]][2]:
                    opts.append(["L{}".format((i + 1) % n), "L{}".format((i + 3) % n)])
                else:
                    opts.append([None])
            for bind in itertools.product(*opts):
                yield {"tags": list(seq), "bind": list(bind), "variant": "all"}


ROW_OPERANDS = {"inh": "", "imm": "#$12", "addr": "$1234", "dir": "<$12", "ext": ">$1234", "extind": "[$1234]"}


def row_cases():
    """every mnemonic x every operand form of its datasheet row (one operand each), sized through the listing"""
    from . import c01
    for mnem in R.ALL_MNEMONICS:
        modes = R.MNEM[mnem]
        if "REL8" in modes or "REL16" in modes:
            yield {"row": mnem, "op": "L1", "form": "rel"}
            yield {"row": mnem, "op": "L0", "form": "rel.self"}
            continue
        if "REGLIST" in modes:
            yield {"row": mnem, "op": "A,X", "form": "reglist"}
            continue
        if "REGPAIR" in modes:
            yield {"row": mnem, "op": "X,Y", "form": "regpair"}
            continue
        for sk in c01.row_forms(mnem):
            f = sk["form"]
            if f in ROW_OPERANDS:
                yield {"row": mnem, "op": ROW_OPERANDS[f], "form": f}
            elif f == "pcr":
                for v in ("5", "300", "L1"):
                    yield {"row": mnem, "op": R.render(sk, v), "form": "pcr." + v + (".ind" if sk["indirect"] else "")}
            elif sk["sub"] == "off":
                for v in ("5", "-5", "100", "-100", "1000", "L1"):
                    if sk["reg"] in ("X", "S"):
                        yield {"row": mnem, "op": R.render(sk, v), "form": "idx.off." + v + "." + sk["reg"] + (".ind" if sk["indirect"] else "")}
            elif sk["reg"] == "Y":
                yield {"row": mnem, "op": R.render(sk), "form": "idx." + sk["sub"] + (".ind" if sk["indirect"] else "")}


def check_row(case):
    mnem = case["row"]
    lines = [" ORG $1000", "L0 {} {}".format(mnem, case["op"]), "L1 NOP", "L2 NOP"]
    out = common.assemble_confirm(lines)
    res = {"state": "row:{}:{}".format(out["kind"], mnem), "outcome": out["kind"], "nontrivial": out["kind"] == "OK"}
    cell = "row.{}|{}".format(mnem, case["form"])

    def V(symptom, expected, observed):
        res["viol"] = [{"component": "layout", "cell": cell, "symptom": symptom, "expected": expected, "observed": observed,
                        "input": dict(case, lines=lines)}]
        return res
    if out["kind"] != "OK":
        return res          # acceptance of valid statements is C01's; internal errors are C13's
    image, addrs, syms = out["image"], out["addrs"], out["symbols"]
    try:
        rec = R.decode(image, addrs[1])
    except R.Illegal as e:
        return V("image undecodable at this statement", "one {} instruction".format(mnem), "{} <- {}".format(e, image[:6].hex().upper()))
    if mnem not in rec["mnems"]:
        return V("image holds another instruction here", mnem, "/".join(rec["mnems"]))
    ln = rec["len"]
    if addrs[2] - addrs[1] != ln:
        return V("listing advances by {} but statement emits {}".format(_d(addrs[2] - addrs[1]), ln), addrs[1] + ln, addrs[2])
    if image[ln:] != b"\x12\x12":
        return V("image has {} byte(s) beyond the last statement".format(_d(len(image) - ln - 2)), ln + 2, len(image))
    if syms.get("L1") != 0x1000 + ln or syms.get("L2") != 0x1001 + ln or syms.get("L0") != 0x1000:
        return V("symbol value differs from listing address", "L1=${:04X}".format(0x1000 + ln), str(syms))
    if bytes.fromhex(out["hex"][1]) != image[:min(ln, 5)]:
        return V("listing hex column differs from the image", image[:ln].hex().upper(), out["hex"][1])
    res["state"] = "row:{}:{}:{}".format(mnem, rec["mode"], ln)
    return res


def all_programs(tier):
    """source programs of this walk, for C13's termination oracle"""
    for c in cases(tier, 0):
        if "row" not in c:
            yield build(c)[0]


def evaluate(case, lines, labels, out):
    """-> (violation dict or None, state string)"""
    tags, bind = case["tags"], case["bind"]
    n = len(tags)
    kinds = [TAGS[t][3] for t in tags]

    def V(i, symptom, expected, observed):
        hole = "-"
        if bind[i]:
            if bind[i] == "UNDEF":
                hole = "undef"
            else:
                j = int(bind[i][1:])
                hole = ("self" if j == i else "back" if j < i else "fwd") + "." + kinds[j]
        return {"component": "layout", "cell": "{}|{}".format(tags[i], hole), "symptom": symptom,
                "expected": expected, "observed": observed, "input": dict(case, lines=lines)}

    defined = [l for l in labels if l]
    dup = len(set(defined)) != len(defined)
    undef = any(b == "UNDEF" for b in bind) or any(b and b not in defined for b in bind)

    def equ_chain(i, seen=()):
        """statement that finally gives EQU statement i its value; None when the definitions lead back to i"""
        while tags[i] == "equ.lbl" and bind[i] and bind[i] in labels:
            if i in seen:
                return None
            seen = seen + (i,)
            i = labels.index(bind[i])
        return i
    circular = [i for i in range(n) if tags[i] == "equ.lbl" and not undef and not dup and equ_chain(i) is None]
    if out["kind"] == "DIAG":
        return None, "DIAG"
    if out["kind"] != "OK":
        return None, out["kind"]        # internal errors / hangs are C13's
    if dup:
        i = n - 1
        return V(i, "duplicate label accepted", "DIAG", common.outcome_brief(out)), "OK"
    if undef:
        i = [k for k, b in enumerate(bind) if b and b not in defined][0]
        return V(i, "undefined symbol accepted", "DIAG", common.outcome_brief(out)), "OK"
    if circular:
        return V(circular[0], "symbol defined in terms of itself accepted", "DIAG", common.outcome_brief(out)), "OK"
    image, addrs, hexes = out["image"], out["addrs"], out["hex"]
    if len(addrs) != n:
        return V(0, "listing has {} lines for {} statements".format(len(addrs), n), n, len(addrs)), "OK"
    origin = out["origin"] if out["origin"] is not None else 0
    cursor = 0
    sizes = []
    # pass 1: how many bytes each statement contributes (decoder / directive specification)
    for i in range(n):
        _, mnem, _, kind, spec = TAGS[tags[i]]
        a = addrs[i]
        if a is None:
            return V(i, "no address in listing", "address", out["listing"][i]), "OK"
        if kind == "ins":
            try:
                rec = R.decode(image[cursor:], a)
            except R.Illegal as e:
                return V(i, "image undecodable at this statement", "one {} instruction".format(mnem),
                         "{} at image[{}:] = {}".format(e, cursor, image[cursor:cursor + 6].hex().upper())), "OK"
            if mnem not in rec["mnems"]:
                return V(i, "image holds another instruction here", mnem,
                         "{} at image[{}:] = {}".format("/".join(rec["mnems"]), cursor, image[cursor:cursor + 6].hex().upper())), "OK"
            ln = rec["len"]
        elif kind == "data":
            ln = spec
        else:
            ln = 0
        hx = hexes[i]
        got = image[cursor:cursor + ln]
        if len(got) < ln:
            return V(i, "image shorter than the statements", "{} byte(s)".format(ln), "{} left".format(len(got))), "OK"
        hb = bytes.fromhex(hx) if hx else b""
        if kind in ("ins", "data"):
            if len(hb) < min(ln, 5) or got[:len(hb)] != hb[:ln] or (ln < 5 and len(hb) != ln):
                return V(i, "listing hex column differs from the image", "hex column = emitted bytes (first 5)",
                         "column {} vs image {}".format(hx, got[:5].hex().upper())), "OK"
        elif hb:
            return V(i, "no-byte directive shows bytes", "empty hex column", hx), "OK"
        if i + 1 < n:
            nxt = addrs[i + 1]
            if nxt is None:
                return V(i + 1, "no address in listing", "address", out["listing"][i + 1]), "OK"
            if TAGS[tags[i + 1]][3] != "org" and nxt != a + ln:
                return V(i, "listing advances by {} but statement emits {}".format(_d(nxt - a), ln),
                         "next address = ${:04X}".format(a + ln), "${:04X}".format(nxt)), "OK"
        sizes.append(ln)
        cursor += ln
    if cursor != len(image):
        return V(n - 1, "image has {} byte(s) beyond the last statement".format(_d(len(image) - cursor)), cursor, len(image)), "OK"
    # pass 2: placement - loading the image at the reported origin puts every statement at its listed address
    emitted = 0
    late_org = None
    for i in range(n):
        if kinds[i] == "org" and emitted and late_org is None:
            late_org = i
        emitted += sizes[i]
    cursor = 0
    for i in range(n):
        if sizes[i] and addrs[i] - origin != cursor:
            if late_org is not None:
                v = V(late_org, "non-contiguous program accepted but image does not load as listed",
                      "rejected, or every statement at its listed address when the image is loaded at origin ${:04X}".format(origin),
                      "statement {} listed at ${:04X} but image offset {} loads at ${:04X}".format(i, addrs[i], cursor, origin + cursor))
                v["cell"] = "{}|after-bytes".format(tags[late_org])
                return v, "OK"
            return V(i, "bytes not at listed address when loaded at origin",
                     "listed ${:04X} = origin ${:04X} + image offset {}".format(addrs[i], origin, cursor),
                     "offset {} loads at ${:04X}".format(cursor, origin + cursor)), "OK"
        cursor += sizes[i]
    # symbols
    syms = out["symbols"]
    for i, lab in enumerate(labels):
        if not lab:
            continue
        if lab not in syms:
            return V(i, "label missing from symbol table", lab, sorted(syms)), "OK"
        j = equ_chain(i) if tags[i] == "equ.lbl" else i
        want = TAGS[tags[j]][4] if kinds[j] == "equ" else addrs[j]
        if syms[lab] != want:
            return V(i, "symbol value differs from " + ("EQU constant" if kinds[i] == "equ" else "listing address"),
                     "${:04X}".format(want), "${:04X}".format(syms[lab] if syms[lab] is not None else -1)), "OK"
    if set(syms) - set(defined):
        return V(0, "symbol table lists undefined names", sorted(defined), sorted(syms)), "OK"
    st = "OK:{}:{}:{}".format(origin, ",".join(map(str, sizes)), ",".join("{}={}".format(k, v) for k, v in sorted(syms.items())))
    return None, st


def _d(x):
    return x if -9 <= x <= 9 else ("many" if x > 0 else "-many")


def check_case(case):
    if "row" in case:
        return check_row(case)
    lines, labels = build(case)
    out = common.assemble_confirm(lines)
    if case.get("variant") == "dig" and out["kind"] == "OK":
        out = dict(out, symbols={("L" + k[0] if k.endswith("DIG") and k[:-3].isdigit() else k): v for k, v in out["symbols"].items()})
    if case.get("variant") in ("low", "duplow") and out["kind"] == "OK":
        out = dict(out, symbols={("L" + k[4:] if k.startswith("loop") and k[4:].isdigit() else k): v for k, v in out["symbols"].items()})
    v, st = evaluate(case, lines, labels, out)
    res = {"state": st if st.startswith("OK:") else st + ":" + ",".join(case["tags"]), "outcome": out["kind"],
           "nontrivial": st.startswith("OK:")}
    if v:
        res["viol"] = [v]
    if zlib.crc32(repr(case).encode()) % 9973 == 0:
        res["sample"] = {"lines": lines, "outcome": common.outcome_brief(out)}
    return res


def describe(tier):
    return {
        "alphabet": "{} statement templates, one per size-computation path (tags: {}); every statement labelled (variant 'all') or only "
                    "EQUs and referenced statements labelled (variant 'min'); label holes bound to every label in the sequence and to an "
                    "undefined name; a duplicate-definition variant per pair".format(len(T), " ".join(t[0] for t in T)),
        "bound": "every mnemonic x every operand form of its row as a single statement followed by two labelled NOPs; "
                 "all sequences of length <= 2 over the full alphabet; length 3 over " +
                 ("a {}-template core".format(len(CORE)) if tier == "quick" else "the full alphabet; length 4 over the core with 2 bindings per hole"),
        "oracle": "image cut by decoded instruction length / directive spec length: listing address advance = bytes emitted; hex column = "
                  "image slice; every emitting statement sits at (listed address - origin) in the image; len(image) = sum; labels = listing "
                  "address, EQU = constant; duplicate and undefined symbols rejected",
        "rule": "a state is (origin, per-statement sizes, symbol table) of an accepted program or the outcome class + tag sequence; "
                "non-trivial = accepted programs (distinct layout states)",
        "assumptions": ["origin None is read as load address 0 (what assembler.py stores)"],
    }
