"""
C11 - the saved image holds the assembled program, at its origin, under its name.

Product enumeration: program size x origin x NAM x --name x END operand x every non-empty subset of
{--to_bin,--to_cas,--to_dsk}, each run through assembler.main in a private directory; the files written
are parsed by the independent readers and compared with an independent in-process assembly.
"""
import itertools
import os
import shutil
import tempfile
import zlib

from .. import common, cli
from .. import containers as C
from ..ref import dskfs, tape

PROP = "C11"
CHUNK = 6

SIZES = [1, 39, 255, 256, 2294, 2295, 4600, 65535]
ORIGINS = [None, 0, 0x10, 0x0E00, 0xFFF0, 0x553C, 0x3C55]      # the last two spell the tape's block marker $55 $3C
NAMS = [None, "P", "HELLO", "EIGHTCHR", "NINECHARS", "TWELVECHARS1", "hello", "MixEd", "low0r670", "0a"]       # the last two hold the digit 0
CLINAMES = [None, "CLINAME", "cli"]
ENDS = ["none", "bare", "start", "mid"]
SUBSETS = [s for n in (1, 2, 3) for s in itertools.combinations(("bin", "cas", "dsk"), n)]


PRE_SETS = [[0], [1, 3], [4, 2, 0]]       # indices into c16.FILES: what the existing target holds (built by the independent writers)


def program(size, origin, nam, end, nam_at="first"):
    lines = []
    if nam is not None and nam_at == "first":
        lines.append("        NAM {}".format(nam))
    if origin is not None:
        lines.append("        ORG ${:04X}".format(origin))
    if nam is not None and nam_at == "after-org":
        lines.append("        NAM {}".format(nam))
    if size == 39:
        lines += ["CHROUT  EQU $A30A", "POLCAT  EQU $A000", "START   JSR $A928", "        LDX #MESSAGE", "PRINT   LDA ,X+", "        CMPA #0",
                  "        BEQ FINISH", "        JSR CHROUT", "        BRA PRINT", 'MESSAGE FCC "HELLO WORLD"', "        FDB $0",
                  "FINISH  JSR [POLCAT]", "MID     BEQ FINISH", "        JMP $A027"]
    else:
        body = size
        lines.append("START   NOP")
        body -= 1
        if body >= 1:
            lines.append("MID     RTS")
            body -= 1
        else:
            lines.append("MID     EQU START")
        if body > 0:
            lines.append("        RMB {}".format(body))
    if nam is not None and nam_at == "before-end":
        lines.append("        NAM {}".format(nam))
    if end == "bare":
        lines.append("        END")
    elif end == "start":
        lines.append("        END START")
    elif end == "mid":
        lines.append("        END MID")
    return lines


def cases(tier, seed):
    thorough = tier == "thorough"
    for size in SIZES:
        for origin in ORIGINS:
            if origin is not None and origin + size > 0x10000:
                continue
            if origin is None and size > 0xFFFF:
                continue
            nams = NAMS if (thorough or size in (1, 39)) else [None, "HELLO", "NINECHARS", "low0r670"]
            for nam in nams:
                clin = CLINAMES if (thorough or size in (1, 39)) else [None, "CLINAME"]
                for cn in clin:
                    ends = ENDS if (thorough or size in (1, 39, 256)) else ["none", "mid"]
                    for end in ends:
                        subs = SUBSETS if (thorough or size in (1, 39, 2295)) else [("bin", "cas", "dsk"), ("dsk",), ("cas",)]
                        for sub in subs:
                            yield {"size": size, "origin": origin, "nam": nam, "cliname": cn, "end": end, "out": list(sub)}
    # programs whose last byte is the last byte of memory ($FFFF): origin + size = $10000 (no statement can follow, so no END)
    for size in SIZES:
        for nam, cn in (("HELLO", None), (None, "cli")):
            for sub in SUBSETS:
                yield {"size": size, "origin": 0x10000 - size, "nam": nam, "cliname": cn, "end": "none", "out": list(sub)}
    # a program that fills the whole memory, $0000-$FFFF (65,536 bytes): a tape and a raw binary hold it; a disk's machine-language
    # length field cannot, so --to_dsk may refuse ("Unable to save disk file") - what it must not do is write something else
    for origin in (0, None):
        for sub in SUBSETS:
            yield {"size": 65536, "origin": origin, "nam": "FULLMEM", "cliname": None, "end": "none", "out": list(sub)}
    # NAM is a directive like any other: it may stand after the ORG or at the end of the program
    for size in (1, 39):
        for origin in (None, 0x0E00):
            for nam_at in ("after-org", "before-end"):
                for cn in (None, "cli"):
                    for end in ("none", "start"):
                        for sub in (("cas",), ("dsk",), ("bin", "cas", "dsk")):
                            yield {"size": size, "origin": origin, "nam": "LATENAM", "cliname": cn, "end": end, "out": list(sub), "nam_at": nam_at}
    # targets that already exist and hold files, written to with --append: the program must be ON the image afterwards
    for size in (1, 39, 2295, 4600):
        for origin in (None, 0x0E00):
            for nam, cn in (("HELLO", None), (None, "cli"), ("UPPER", None)):
                for end in ("none", "mid"):
                    for sub in (("cas",), ("dsk",), ("cas", "dsk"), ("bin", "cas", "dsk")):
                        for pre in PRE_SETS:
                            yield {"size": size, "origin": origin, "nam": nam, "cliname": cn, "end": end, "out": list(sub), "pre": pre}
    # targets that exist but hold no files (a 0-byte file, bytes that are no image, a blank disk): with --append the command may
    # refuse them ("Unable to save ..."), but an output it does not refuse must be the image the switch names
    for size in (1, 39):
        for nam, cn in (("HELLO", None), (None, "cli")):
            for sub in SUBSETS:
                for pre in ("empty", "junk", "blankdsk"):
                    yield {"size": size, "origin": 0x0E00, "nam": nam, "cliname": cn, "end": "none", "out": list(sub), "pre": pre}


def check_case(case):
    lines = program(case["size"], case["origin"], case["nam"], case["end"], case.get("nam_at", "first"))
    cell = "size={}|org={}|nam={}|cli={}|end={}|{}".format(
        "{}{}".format(case["size"], "" if "pre" not in case else ".onto{}".format(len(case["pre"]) if isinstance(case["pre"], list) else "." + case["pre"])), "none" if case["origin"] is None else "{:04X}".format(case["origin"]),
        "none" if case["nam"] is None else "{}{}{}".format(len(case["nam"]), "u" if case["nam"].isupper() else "l" if case["nam"].islower() else "m",
                                                          "" if "nam_at" not in case else "." + case["nam_at"]),
        "none" if case["cliname"] is None else ("u" if case["cliname"].isupper() else "l"), case["end"], "+".join(case["out"]))
    res = {"nontrivial": True, "outcome": "ok"}
    viol = []

    def bad(symptom, expected, observed):
        viol.append({"component": "save", "cell": cell, "symptom": symptom, "expected": str(expected)[:160], "observed": str(observed)[:160],
                     "input": case})

    ref = common.assemble([ln for ln in lines], budget=60)
    if ref["kind"] != "OK":
        res["state"] = "not-assembled:" + ref["kind"]
        res["nontrivial"] = False
        return res
    image = ref["image"]
    origin = ref["origin"] if ref["origin"] is not None else 0
    exec_ok = {origin}
    if case["end"] == "start" and "START" in ref["symbols"]:
        exec_ok.add(ref["symbols"]["START"])
    if case["end"] == "mid" and "MID" in ref["symbols"]:
        exec_ok.add(ref["symbols"]["MID"])
    name = case["nam"] if case["nam"] is not None else case["cliname"]
    td = common.mkdtemp(prefix="c11_")
    cwd = os.getcwd()
    try:
        os.chdir(td)
        with open("p.asm", "w") as f:
            f.write("".join(ln + "\n" for ln in lines))
        kw = {"to_" + o: "out." + o for o in case["out"]}
        npre = 0
        if "pre" in case and isinstance(case["pre"], str):
            content = {"empty": b"", "junk": bytes((i * 37 + 11) & 0xFF for i in range(700)).replace(b"\x55\x3c", b"\x55\x3d"),
                       "blankdsk": dskfs.write([])}[case["pre"]]
            for o in case["out"]:
                open("out." + o, "wb").write(content)
            kw["append"] = True
        elif "pre" in case:
            from . import c16
            for o in case["out"]:
                if o != "bin":
                    c16.write_source("out." + o, o, case["pre"])
            npre = len(case["pre"])
            kw["append"] = True
        status, out = cli.assembler("p.asm", name=case["cliname"], **kw)
        if status != 0:
            bad("command failed: {}".format(str(status).split()[0]), "exit 0", "{} {}".format(status, out[-100:]))
        got = {o: (open("out." + o, "rb").read() if os.path.exists("out." + o) else None) for o in ("bin", "cas", "dsk")}
        refused = set()
        if isinstance(case.get("pre"), str):
            refused = {o for o, word in (("bin", "binary"), ("cas", "cassette"), ("dsk", "disk")) if "Unable to save {} file".format(word) in out}
        # the tool's own listing of what it wrote (what a user of file_util would see)
        tool = {}
        for o in ("cas", "dsk"):
            if o in refused:
                continue
            if got[o] is not None and o in case["out"] and (o == "cas" or len(case["out"]) == 1):
                try:
                    from cocoasm.virtualfiles.virtual_file import VirtualFile
                    from cocoasm.virtualfiles.source_file import SourceFile, SourceFileType
                    vf = VirtualFile(SourceFile("out." + o, file_type=SourceFileType.BINARY))
                    vf.open_virtual_file()
                    tool[o] = (vf.virtual_file_type.name if vf.virtual_file_type else None, [C.listed_to_dict(f) for f in vf.list_files()])
                except Exception as e:
                    tool[o] = ("ERROR " + type(e).__name__, [])
    finally:
        os.chdir(cwd)
        shutil.rmtree(td, ignore_errors=True)
    for o, (kind, fs) in tool.items():
        want_kind = "CASSETTE" if o == "cas" else "DISK"
        if kind != want_kind:
            bad("{}: the tool lists its own image as {}".format(o, "another kind" if not str(kind).startswith("ERROR") else "unreadable"), want_kind, kind)
        elif len(fs) != npre + 1 or bytes(fs[-1]["data"]) != image or fs[-1]["load"] != origin or fs[-1]["exec"] not in exec_ok or fs[-1]["type"] != 2:
            bad("{}: the tool's own listing differs from the program".format(o), "{} ML file, {} bytes, load {:04X}".format(npre + 1, len(image), origin),
                "{} file(s) {}".format(len(fs), [(len(f["data"]), f["load"], f["exec"]) for f in fs][:2]))
    for o in ("bin", "cas", "dsk"):
        if o in refused:
            continue            # a refused output is C10's matter (the target must be unchanged)
        if o not in case["out"]:
            if got[o] is not None:
                bad("file written for a switch that was not given", "no out." + o, "exists")
            continue
        if o == "bin" and isinstance(case.get("pre"), list):
            continue          # a raw binary is never appended to (C10)
        if o == "bin":
            if got[o] is None:
                bad("raw binary not written", "out.bin", "missing")
            elif got[o] != image:
                bad("raw binary differs from the assembled image", image.hex()[:40], got[o].hex()[:40])
            continue
        if name is None:
            if got[o] is not None:
                bad("{} image created without any program name".format(o), "no file", "{} bytes".format(len(got[o])))
            continue
        if got[o] is None and o == "dsk" and len(image) > 65535 and "Unable to save disk file" in out:
            continue          # refused with a message: 65,536 bytes do not fit the 16-bit length field of a disk's machine-language file
        if got[o] is None:
            bad("{} image not written".format(o), "out." + o, "missing (stdout: {})".format(out[-80:]))
            continue
        try:
            if o == "cas":
                fs = [{"name": f["name"].decode("latin1"), "type": f["type"], "dtype": f["dtype"], "load": f["a1"], "exec": f["a2"], "data": f["data"]}
                      for f in tape.parse(got[o])]
            else:
                probs = dskfs.fsck(got[o])
                if probs:
                    bad("dsk image fails fsck: " + probs[0][0], "consistent", probs[0][1])
                    continue
                fs = dskfs.read_files(got[o])
        except (tape.TapeError, dskfs.FsError) as e:
            bad("{} image is malformed".format(o), "well-formed", str(e))
            continue
        if len(fs) != npre + 1:
            bad("{} image holds {} files".format(o, len(fs)) if not npre else "{} image does not hold the earlier files plus the program".format(o),
                npre + 1, len(fs))
            continue
        f = fs[-1]
        wname = name.upper()[:8].ljust(8)
        if f["name"].upper().ljust(8)[:8] != wname:
            bad("{}: file name is not the program name".format(o), wname, f["name"])
        elif f["type"] != 2 or f["dtype"] != 0:
            bad("{}: not a machine-language file".format(o), "type 2 / 00", "type {} / {:02X}".format(f["type"], f["dtype"]))
        elif bytes(f["data"]) != image:
            bad("{}: data differs from the assembled image".format(o), "{} bytes".format(len(image)), "{} bytes".format(len(f["data"])))
        elif f["load"] != origin:
            bad("{}: load address is not the origin".format(o), "{:04X}".format(origin), "{:04X}".format(f["load"]))
        elif f["exec"] not in exec_ok:
            bad("{}: entry address is neither the origin nor the END operand".format(o), sorted(exec_ok), f["exec"])
    res["state"] = "{}:{}:{}:{}".format(zlib.crc32(image), origin, name, "+".join(case["out"]))
    if viol:
        res["viol"] = viol[:2]
        res["outcome"] = "violation"
    if zlib.crc32(cell.encode()) % 251 == 0:
        res["sample"] = {"cell": cell, "lines": lines[:6]}
    return res


def describe(tier):
    return {
        "alphabet": "image sizes {} x origins {} x NAM {} x --name {} x END {} x the 7 non-empty subsets of the output switches; NAM placed after the ORG and at the end of the program; the same onto existing cassette/disk targets holding 1-3 files with --append "
                    "(sizes 1 39 2295 4600, 2 origins, NAM / --name / a NAM equal to a stored file's name, 4 switch sets)".format(
            SIZES, ORIGINS, NAMS, CLINAMES, ENDS),
        "bound": "full product in thorough; in quick the full product for sizes 1 and 39 and a reduced product for the other sizes",
        "oracle": "raw file = image of an independent in-process assembly; cassette/disk parsed by the independent readers hold exactly one ML file "
                  "(type 2, data type 00) whose data = image, load = origin (0 without ORG), entry in {origin, END operand address}, name = NAM "
                  "else --name, upper-cased, 8 characters; without a name no cassette/disk file exists",
        "rule": "state = (image checksum, origin, name, switches); non-trivial = programs that assemble",
        "assumptions": ["the image itself is tied to the source by C01-C05"],
    }
