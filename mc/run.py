"""python -m mc.run <Cxx> [--tier quick|thorough]  -- exit 0 / exit 1 + VIOLATION lines."""
import argparse
import os
import sys

from . import framework

CHECKS = {
    "C01": "mc.checks.c01", "C02": "mc.checks.c02", "C03": "mc.checks.c03", "C04": "mc.checks.c04",
    "C05": "mc.checks.c05", "C06": "mc.checks.c06", "C07": "mc.checks.c07", "C08": "mc.checks.c08",
    "C09": "mc.checks.c09", "C10": "mc.checks.c10", "C11": "mc.checks.c11", "C12": "mc.checks.c12",
    "C13": "mc.checks.c13", "C14": "mc.checks.c14", "C15": "mc.checks.c15", "C16": "mc.checks.c16",
    "C17": "mc.checks.c17", "C18": "mc.checks.c18", "C19": "mc.checks.c19",
}


def main():
    ap = argparse.ArgumentParser()
    ap.add_argument("prop")
    ap.add_argument("--tier", default=os.environ.get("VERIF_TIER", "quick"), choices=["quick", "thorough"])
    ap.add_argument("--seed", type=int, default=int(os.environ.get("VERIF_SEED", "0") or 0))
    a = ap.parse_args()
    sys.exit(framework.run(CHECKS[a.prop.upper()], a.tier, a.seed))


if __name__ == "__main__":
    main()
