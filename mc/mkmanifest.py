"""Regenerates /verif/MANIFEST.json from the table below (python -m mc.mkmanifest)."""
import json
import os

from . import common

PY = "/venv/bin/python"

# property -> (engine, technique, level text, level note, design ref)
CLAIMED = {}

TITLES = {}
for ln in open(os.path.join(common.VERIF, "properties.jsonl")):
    p = json.loads(ln)
    TITLES[p["id"]] = p["title"]

NOT_YET = "check not built yet in this session; see DESIGN.md section 10 for the build order"


def claim(pid, engine, technique, text, note, ref):
    CLAIMED[pid] = (engine, technique, text, note, ref)


claim("C01", "stmt_space",
      "bounded-exhaustive product enumeration of single statements on the real assembler, decoded by an independent MC6809 decoder",
      "Every mnemonic x every operand form of its datasheet row x every register/indirection x a boundary value set x every literal "
      "spelling x EQU/label routes is assembled by the real code and the bytes are decoded and compared with the intent; thorough adds the "
      "complete value range for 14 representative rows. Exhaustive within that product, nothing sampled.",
      "trusts ref_data/mc6809_opcodes.tsv (datasheet transcription) and mc/ref/m6809.py (decoder, self-tested); DP=0 only", "DESIGN.md 6 C01")


def build():
    checks = []
    na = []
    for pid in sorted(TITLES):
        if pid in CLAIMED:
            engine, technique, text, note, ref = CLAIMED[pid]
            checks.append({
                "property_id": pid,
                "quick_cmd": "{} -m mc.run {} --tier quick".format(PY, pid),
                "thorough_cmd": "{} -m mc.run {} --tier thorough".format(PY, pid),
                "evidence_file": "/verif/evidence/{}.json".format(pid),
                "replay_cmd_template": PY + " -m mc.replay {path}",
                "engine": engine,
                "level_claimed": {"category": "model_checking", "text": text, "design_ref": ref},
                "level_note": note,
                "technique": technique,
            })
        else:
            na.append({"property_id": pid, "reason": NOT_YET})
    man = {
        "version": 1,
        "setup_cmd": PY + " -m mc.selftest",
        "hooks": {
            "guard": "COCOASM_VERIF",
            "enable": "no hooks exist: every seam used is public API; checks export COCOASM_VERIF=1 for forward compatibility",
            "baseline_off_cmd": "cd /repo && /venv/bin/python -m pytest -ra -q -p no:cacheprovider --timeout=900 --continue-on-collection-errors",
            "source_commits": [],
            "add_only": True,
        },
        "engines": [
            {"name": "stmt_space", "path": "mc/checks/c01.py", "serves_properties": ["C01", "C04", "C05", "C12"],
             "kind_free_text": "product enumeration of single statements through Program.process"},
        ],
        "checks": checks,
        "not_applicable": na,
        "notes": "All checks are bounded-exhaustive explicit-state exploration of the real Python implementation through its public seams; "
                 "see DESIGN.md. Known genuine defects are in KNOWN_FINDINGS.txt.",
    }
    with open(os.path.join(common.VERIF, "MANIFEST.json"), "w") as f:
        json.dump(man, f, indent=1)
    return man


if __name__ == "__main__":
    m = build()
    import jsonschema  # only present in the tooling venv; validation is optional
    jsonschema.validate(m, json.load(open("/root/.vp/MANIFEST.schema.json")))
    print("MANIFEST.json valid, {} checks, {} not_applicable".format(len(m["checks"]), len(m["not_applicable"])))
