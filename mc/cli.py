"""In-process drivers for assembler.py and file_util.py (argparse.Namespace, SystemExit caught, stdout captured)."""
import argparse
import contextlib
import io
import os
import subprocess
import sys

from . import common


def _run(main, ns, budget=120):
    buf = io.StringIO()
    status = 0
    try:
        with contextlib.redirect_stdout(buf), common.watchdog(budget):
            main(ns)
    except SystemExit as e:
        status = e.code if isinstance(e.code, int) else (0 if e.code is None else 1)
    except common.Hang:
        status = "HANG"
    except BaseException as e:
        t, w = common._raiser(e)
        status = "TRACEBACK {}@{}".format(t, w)
    return status, buf.getvalue()


def assembler(filename, to_bin=None, to_cas=None, to_dsk=None, name=None, append=False, symbols=False, print_=False):
    import assembler as A
    ns = argparse.Namespace(filename=filename, symbols=symbols, print=print_, to_bin=to_bin, to_cas=to_cas, to_dsk=to_dsk, name=name,
                            append=append, width=100)
    return _run(A.main, ns)


def file_util(host, to_bin=None, to_cas=None, to_dsk=None, files=None, append=False, list_=False):
    import file_util as F
    ns = argparse.Namespace(host_filename=host, append=append, list=list_, to_bin=to_bin, to_cas=to_cas, to_dsk=to_dsk, files=files)
    return _run(F.main, ns)


def subprocess_cli(script, args, cwd):
    """real `python <repo>/<script> args...` -> (exit status, stdout)"""
    env = dict(os.environ, PYTHONDONTWRITEBYTECODE="1", PYTHONPATH=common.REPO)
    r = subprocess.run([sys.executable, os.path.join(common.REPO, script)] + args, cwd=cwd, capture_output=True, text=True, env=env, timeout=300)
    return r.returncode, r.stdout + ("\nSTDERR:" + r.stderr[-300:] if r.returncode not in (0, 1) or "Traceback" in r.stderr else "")
