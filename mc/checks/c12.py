"""
C12 - no accepted statement yields a malformed or silently truncated instruction.

Product enumeration of operand TEXT: (a) every core form of representative rows with each dimension
pushed out of range (values, registers, modes the row lacks); (b) all token strings up to a length bound
over a 17-token operand alphabet. Whatever is accepted must be exactly one complete instruction of that
mnemonic, of the length the listing reserves; texts the documented grammar parses into a must-reject
class (value does not fit, register not in the form's set, mode absent) must be rejected.
"""
import itertools
import zlib

from .. import common
from ..ref import m6809 as R
from . import c01

PROP = "C12"
CHUNK = 500

TOKENS = ["#", "<", ">", "[", "]", ",", "+", "-", "$", "%", "'", "1", "7F", "X", "PCR", "E", "L"]
SYMVALS = {"E": 300, "L": 0x2000, "@stmt": 0x2001}     # @stmt: address of the statement under test (after L NOP at $2000)
REPS = ["LDA", "LDX", "LDY", "STA", "STX", "STY", "NEG", "CLR", "LEAX", "LEAS", "JMP", "JSR", "CMPD", "CMPS", "ADDD", "ANDCC",
        "NOP", "SWI", "SWI2", "BRA", "LBRA", "LBNE", "BSR", "PSHS", "PULU", "TFR", "EXG"]
REPS_DEEP = ["LDA", "LDX", "LDY", "STA", "LEAX", "JMP"]
OUT_VALUES = c01.V16 + [65536, 70000, -32769, 300, 4660]
BAD_REGS = ["X", "Y", "U", "S", "PC", "PCR", "A", "B", "D", "CC", "DP", "Z", "W", "x", "y"]


def perturbed_texts(mnem):
    """(a): every operand form (whether or not the row has it) with values and registers pushed around"""
    seen = set()
    sks = [{"form": "inh"}, {"form": "imm"}, {"form": "addr"}, {"form": "dir"}, {"form": "ext"}, {"form": "extind"}]
    for ind in (False, True):
        sks.append({"form": "pcr", "indirect": ind})
        for sub in ("zero", "off", "inc1", "inc2", "dec1", "dec2"):
            for r in BAD_REGS:
                sks.append({"form": "idx", "sub": sub, "reg": r, "indirect": ind})
        for a in ("A", "B", "D", "X", "E"):
            for r in ("X", "S", "PC", "Z"):
                sks.append({"form": "idx", "sub": "acc", "acc": a, "reg": r, "indirect": ind})
    for sk in sks:
        if c01.needs_value(sk):
            vals = OUT_VALUES if (sk["form"] != "idx" or sk["reg"] in ("X", "S", "PC", "Z")) else [0, 5, -200]
            for v in vals:
                for sp in ("dec", "hex", "hex4"):
                    t = R.spell(v, sp)
                    if t is None or (sp != "dec" and v > 0xFFFF):
                        continue
                    txt = R.render(dict(sk, value=v), t)
                    if txt not in seen:
                        seen.add(txt)
                        yield txt
        else:
            txt = R.render(sk)
            if txt not in seen:
                seen.add(txt)
                yield txt
    regs = ["A", "B", "D", "X", "Y", "U", "S", "PC", "CC", "DP", "Z", "PCR", "a", "W"]
    for r in regs:
        yield r
        for r2 in regs:
            yield r + "," + r2
    # branch targets label+-n around the short-branch range (the statement sits at $2001, L at $2000)
    for v in (0, 1, 3, 100, 124, 125, 126, 127, 128, 129, 130, 131, 132, 200, 255, 256, 300, 1000):
        for t in ("L+{}", "L-{}", "{}+L", "L+${:X}", "L-${:X}"):
            yield t.format(v)
    # two-term expressions of constants whose RESULT leaves the field (the terms themselves are in range)
    for e in ("1000-50000", "5-32774", "5-40000", "5-65535", "0-32769", "0-32768", "60000+10000", "65535+1", "300*300", "1-300", "200+100", "100-229",
              "E-50000", "E*E*1"[:3], "65535/1", "1/0"):
        for tmpl in ("#{}", "{}", "<{}", ">{}", "[{}]", "{},X", "{},Y", "[{},X]", "{},PCR", "[{},U]"):
            yield tmpl.format(e)
    # label and symbol expressions in every operand position (each position has its own resolution path)
    for e in ("L+1", "L-1", "1+L", "L+300", "L-$2001", "E+1", "E-1", "L+E", "L", "E", "ZZ9", "ZZ9-1"):
        for tmpl in ("#{}", "{}", "<{}", ">{}", "[{}]", "{},X", "{},Y", "{},S", "[{},X]", "[{},U]", "{},PCR", "[{},PCR]", "{},X+", "[{},--Y]"):
            yield tmpl.format(e)
    # an addressing-mode prefix in front of an indexed offset (other assemblers use it to force the offset width)
    for pfx in "<>":
        for v in (0, 5, 15, 16, 100, 127, 128, 200, 255, 256, 1000, -1, -16, -17, -128, -129, -200, -257, -1000):
            for tmpl in ("{}{},X", "{}{},S", "[{}{},Y]", "{}{},PCR"):
                yield tmpl.format(pfx, v)
    for t in ("A,X+", "B,-Y", "D,X++", "A,--S", "5,X+", "5,--Y", "[A,X++]", "[5,--Y]", "#5,X", "#5,PCR", "#,X", ",PCR", "[,PCR]", "A,PCR", "[D,PCR]",
              "[#5,X]", "[#5]", "[#$1234]", "[#L,PCR]", "[#E,Y]", "[#L]", "#L", "<L", ">L", "#5", "<5", ">5"):
        yield t
    # index registers stepped both before and after the access, or by more than two: no such mode
    for r in "XYUS":
        for t in (",-{}+", "0,-{}+", "[,-{}+]", ",--{}++", ",-{}++", ",--{}+", ",{}+++", ",---{}", "[,--{}++]", "[0,-{}+]", "A,-{}+"):
            yield t.format(r)
    yield "A,B,X,Y,U,S,PC,CC,DP,D"
    yield "A,,B"
    yield "A,B,"


def token_strings(maxlen, ren=None):
    toks = TOKENS if ren is None else [ren[0] if t == "E" else ren[1] if t == "L" else t for t in TOKENS]
    for n in range(1, maxlen + 1):
        for tup in itertools.product(toks, repeat=n):
            yield "".join(tup)


# other spellings of the two symbols (constant, label): names made of register letters, names that contain a register name
LOW_ORG = 0x0020
RENAMES = [("AB", "BD"), ("ABD", "DD"), ("XS", "SU"), ("PCRX", "CCX"), ("EA", "DPY"), ("BH", "EACH")]
REPS_NAMES = ["LDA", "LEAX", "JMP", "STX"]
SYM_RE = __import__("re").compile(r"(?<![\w$'])[EL](?!\w)")


def cases(tier, seed):
    for mnem in REPS:
        seen = set()
        for t in perturbed_texts(mnem):
            if t not in seen:
                seen.add(t)
                yield {"mnem": mnem, "text": t, "src": "perturb"}
                if SYM_RE.search(t) or "ZZ9" in t:
                    # the same statement in a program that lies in the zero page: a label's value then has a two-digit shortest form
                    yield {"mnem": mnem, "text": t, "src": "perturb", "org": LOW_ORG}
        depth = 4 if tier == "thorough" else 3
        if mnem in REPS_DEEP:
            depth += 1
        for t in token_strings(depth):
            if t not in seen:
                seen.add(t)
                yield {"mnem": mnem, "text": t, "src": "tokens"}
    for mnem in REPS_NAMES:
        for ren in RENAMES:
            seen = set()
            for t in token_strings(4 if tier == "thorough" else 3, ren):
                if (ren[0] in t or ren[1] in t) and t not in seen:
                    seen.add(t)
                    yield {"mnem": mnem, "text": t, "src": "names", "ren": list(ren)}
            for t0 in perturbed_texts(mnem):
                t = SYM_RE.sub(lambda m: ren[0] if m.group(0) == "E" else ren[1], t0)
                if t != t0 and t not in seen:
                    seen.add(t)
                    yield {"mnem": mnem, "text": t, "src": "names", "ren": list(ren)}
    rest = [m for m in R.ALL_MNEMONICS if m not in REPS]
    for mnem in rest:
        for t in token_strings(3 if tier == "thorough" else 2):
            yield {"mnem": mnem, "text": t, "src": "tokens"}
        yield {"mnem": mnem, "text": "", "src": "tokens"}


def build(case):
    e, lb = case.get("ren", ("E", "L"))
    return ["{} EQU 300".format(e), " ORG ${:04X}".format(case.get("org", 0x2000)), "{} NOP".format(lb), " {} {}".format(case["mnem"], case["text"]), "ZZ9 NOP"]


def all_programs(tier):
    for c in cases(tier, 0):
        yield build(c)


def check_case(case):
    mnem, text = case["mnem"], case["text"]
    lines = build(case)
    out = common.assemble_confirm(lines)
    res = {"outcome": out["kind"], "state": out["kind"], "nontrivial": False}
    if out["kind"] != "OK":
        return res
    cell = "{}|{}".format(mnem, text) + ("|org=${:04X}".format(case["org"]) if "org" in case else "")
    org = case.get("org", 0x2000)
    viol = []

    def bad(symptom, expected, observed):
        viol.append({"component": "accept", "cell": cell, "symptom": symptom, "expected": expected, "observed": observed,
                     "input": dict(case, lines=lines)})

    image = out["image"]
    body = image[1:-1] if len(image) >= 2 else b""
    a_stmt, a_next = out["addrs"][3], out["symbols"].get("ZZ9")
    reserved = None if (a_stmt is None or a_next is None) else a_next - a_stmt
    rec, why = R.check_statement_bytes(mnem, body, a_stmt or 0)
    if image[:1] != b"\x12" or image[-1:] != b"\x12":
        bad("neighbouring statements disturbed", "12 .. 12", image.hex().upper())
    elif rec is None:
        sym = "undecodable" if why.startswith("undecodable") else ("trailing bytes" if "trailing" in why else "wrong mnemonic")
        bad(sym, "one complete {} instruction".format(mnem), "{} <- bytes {}".format(why, body.hex().upper()))
    elif reserved != len(body):
        bad("listing reserves {} but {} emitted".format(c02d(reserved), len(body)), "equal", "bytes {}".format(body.hex().upper()))
    elif (out["hex"][3] or "").upper() != body.hex().upper():
        # the listing line of the statement shows the bytes it reserves the space for (an instruction has at most five)
        bad("listing shows {} byte(s) for the {} emitted".format(c02d(len(out["hex"][3] or "") // 2), len(body)), "hex column " + body.hex().upper(), "hex column " + (out["hex"][3] or "-"))
    else:
        try:
            symvals = dict(SYMVALS, **{"L": org, "@stmt": org + 1}) if "ren" not in case else {case["ren"][0]: 300, case["ren"][1]: 0x2000, "@stmt": 0x2001}
            intent = R.parse_operand(mnem, text, symvals)
        except Exception:
            intent = None
        if intent is None and text[:1] in "<>[" and SYM_RE.search(text) is None:
            # <n,R / >n,R / [<n,R]: the prefix may be refused, ignored or taken as a width - but an accepted statement must still mean n,R
            stripped = text.replace("<", "", 1).replace(">", "", 1) if (text[:1] in "<>" or text[:2] in ("[<", "[>")) else None
            try:
                alt = R.parse_operand(mnem, stripped, SYMVALS) if stripped and "<" not in stripped and ">" not in stripped else None
            except Exception:
                alt = None
            if alt is not None and alt.get("form") in ("idx", "pcr") and alt.get("nterms", 1) == 1 and "ren" not in case:
                cls2, acc = R.classify(mnem, alt)
                if cls2 == "valid":
                    msg = acc(rec)
                    if msg is not None:
                        bad("encoded as something else", "the operand as written (prefix aside)", "{} <- bytes {}".format(msg, body.hex().upper()))
        if intent is not None:
            cls, why2 = R.classify(mnem, intent)
            if cls == "reject":
                bad("accepted: " + why2.split(":")[0], "rejected ({})".format(why2), "bytes {} = {}".format(body.hex().upper(), rec.get("key")))
            elif cls == "open" and callable(why2) and "ren" not in case and not SYM_RE.search(text) and "ZZ9" not in text and intent.get("nterms", 1) == 1:
                msg = why2(rec)          # a form that may be refused, but has one meaning when it is accepted
                if msg is not None:
                    bad("encoded as something else", "the operand as written", "{} <- bytes {}".format(msg, body.hex().upper()))
            elif cls == "valid" and "ren" not in case and not SYM_RE.search(text) and "ZZ9" not in text and intent.get("nterms", 1) == 1:
                # purely numeric operands only: what a symbol or an expression evaluates to is C04's subject (and its findings)
                msg = why2(rec)          # "... rather than encoded as something else": the meaning the documented grammar gives the text
                if msg is not None:
                    bad("encoded as something else", "the operand as written", "{} <- bytes {}".format(msg, body.hex().upper()))
        res["state"] = "{}:{}".format(mnem, rec.get("key"))
        res["nontrivial"] = True
    if viol:
        res["viol"] = viol
    if zlib.crc32((mnem + text).encode()) % 5003 == 0:
        res["sample"] = {"lines": lines, "outcome": common.outcome_brief(out)}
    return res


def c02d(x):
    return x if x is None or -9 <= x <= 9 else "many"


def describe(tier):
    return {
        "alphabet": "operand texts for {} representative mnemonics (one per row shape incl. specials, inherent, branches): (a) every operand "
                    "form x values V16+{{65536,70000,-32769,300,4660}} x registers {} x indirection, and branch targets L+-n / n+L for n around the short-branch "
                    "range; (b) every token string over {}; "
                    "(c) the token strings and the symbol-using texts of (a) again for {} with the two symbols spelt {} (names made of register letters or containing a register name); "
                    "all other mnemonics with every token string of length <= {}".format(
                        len(REPS), BAD_REGS, TOKENS, REPS_NAMES, RENAMES, 3 if tier == "thorough" else 2),
        "bound": "token strings of length <= {} ({} for {})".format(4 if tier == "thorough" else 3, 5 if tier == "thorough" else 4, REPS_DEEP),
        "oracle": "if accepted: bytes between the neighbouring NOPs decode (datasheet decoder) as exactly one instruction of that mnemonic, "
                  "all bytes consumed, count = ZZ9 - listed address; texts that the documented grammar parses into value-out-of-range / "
                  "wrong-register / absent-mode must not be accepted",
        "rule": "complete enumeration of the text space; state = (mnemonic, decoded meaning) of accepted statements; non-trivial = accepted",
        "assumptions": ["statement embedded as: E EQU 300 / ORG $2000 / L NOP / <stmt> / ZZ9 NOP; the symbol-using texts of (a) again with ORG $0020 (labels in the zero page)"],
    }
