"""Regenerates /verif/MANIFEST.json from the table below (python -m mc.mkmanifest)."""
import json
import os

from . import common

PY = "/venv/bin/python"

# property -> (engine, technique, level text, level note, design ref)
CLAIMED = {}

TITLES = {}
for ln in open(os.path.join(common.VERIF, "properties.jsonl")):
    p = json.loads(ln)
    TITLES[p["id"]] = p["title"]

NOT_YET = "check not built yet in this session; see DESIGN.md section 10 for the build order"


def claim(pid, engine, technique, text, note, ref):
    CLAIMED[pid] = (engine, technique, text, note, ref)


claim("C01", "stmt_space",
      "bounded-exhaustive product enumeration of single statements on the real assembler, decoded by an independent MC6809 decoder",
      "Every mnemonic x every operand form of its datasheet row x every register/indirection x a boundary value set x every literal "
      "spelling x EQU/label routes is assembled by the real code and the bytes are decoded and compared with the intent; thorough adds the "
      "complete value range for 14 representative rows. Exhaustive within that product, nothing sampled.",
      "trusts ref_data/mc6809_opcodes.tsv (datasheet transcription) and mc/ref/m6809.py (decoder, self-tested); DP=0 only", "DESIGN.md 6 C01")

claim("C02", "prog_bfs",
      "breadth-first enumeration of statement sequences (depth <= 3/4) over a 83-template alphabet with label holes, on the real assembler; "
      "layout arithmetic oracle over listing, symbol table and image",
      "All statement sequences up to the stated depth, every label binding (defined/undefined/duplicate): listing address advance = bytes "
      "emitted (decoder / directive spec), hex column = image slice, image loads at origin as listed, symbol values, duplicate/undefined rejection.",
      "trusts the MC6809 decoder for instruction lengths; origin None read as 0", "DESIGN.md 6 C02")
claim("C03", "prog_bfs",
      "exhaustive distance sweeps and enumeration of 2-3 mutually dependent label,PCR statements on the real assembler; decoded target "
      "compared with the symbol table",
      "Every branch and indexed-capable mnemonic, forward/backward/self, every filler length in the stated ranges (0..140, +-10 around 32767), "
      "label+-k targets, several origins, bare n,PCR over the boundary value set, and all pairs/triples of PCR statements with every gap in "
      "112..132: the decoded displacement must reach symbol-table(label)+k; out-of-range short branches must be rejected.",
      "trusts the decoder; INTERNAL/HANG outcomes are reported by C13", "DESIGN.md 6 C03")
claim("C04", "stmt_space",
      "product enumeration of operand position x term x operator x term (literal spellings, EQU before/after use, labels before/after use) "
      "on the real assembler against integer arithmetic",
      "14 operand positions x single terms and all ordered term pairs x 4 operators: the decoded operand field must equal the arithmetic "
      "value modulo the field width; /0 must be diagnosed; out-of-range results rejected or reduced mod 65536.",
      "reference arithmetic is Python integer arithmetic with truncating division; tolerances listed in the evidence file", "DESIGN.md 6 C04")
claim("C05", "stmt_space",
      "product enumeration of FCB/FDB lists, FCC strings x delimiters, RMB counts and no-byte directives on the real assembler against the "
      "directive specification",
      "All value lists of length 1-3 over 18 element kinds and structured lists up to length 64, all short strings over a hostile alphabet for "
      "every delimiter, all printable characters, runs up to 255, RMB n (every n in thorough): emitted bytes = specification.", 
      "symbols in data lists are a recorded finding (KF-C05-1)", "DESIGN.md 6 C05")
claim("C12", "stmt_space",
      "exhaustive enumeration of operand text (all token strings up to length 3-5 over a 17-token alphabet, plus every form with "
      "out-of-range values / wrong registers / absent modes) on the real assembler, decoded by the independent decoder",
      "Whatever the assembler accepts must decode as exactly one instruction of that mnemonic whose length equals the space the listing "
      "reserves; texts that the documented grammar classifies as value-out-of-range, wrong-register or absent-mode must be rejected.",
      "trusts the decoder and the operand grammar of DESIGN.md appendix D (mc/ref/m6809.py parse_operand)", "DESIGN.md 6 C12")
claim("C13", "prog_bfs",
      "exhaustive enumeration of programs (all programs of the other walks, single-mutation closure of a corpus, all lines of <= 3-4 fields "
      "over a line alphabet, include graphs) under a watchdog; outcome classification by exception type and raising call site",
      "Every program must end with image+listing+symbols or a ParseError/TranslationError that names a statement; any other exception or a "
      "confirmed timeout is a violation identified by call site; rejected programs run through the command line must exit non-zero and "
      "create no file.",
      "hang = no result within 3 s and again within 12 s alone; in-process assembler.main stands for the command", "DESIGN.md 6 C13")


def build():
    checks = []
    na = []
    for pid in sorted(TITLES):
        if pid in CLAIMED:
            engine, technique, text, note, ref = CLAIMED[pid]
            checks.append({
                "property_id": pid,
                "quick_cmd": "{} -m mc.run {} --tier quick".format(PY, pid),
                "thorough_cmd": "{} -m mc.run {} --tier thorough".format(PY, pid),
                "evidence_file": "/verif/evidence/{}.json".format(pid),
                "replay_cmd_template": PY + " -m mc.replay {path}",
                "engine": engine,
                "level_claimed": {"category": "model_checking", "text": text, "design_ref": ref},
                "level_note": note,
                "technique": technique,
            })
        else:
            na.append({"property_id": pid, "reason": NOT_YET})
    man = {
        "version": 1,
        "setup_cmd": PY + " -m mc.selftest",
        "hooks": {
            "guard": "COCOASM_VERIF",
            "enable": "no hooks exist: every seam used is public API; checks export COCOASM_VERIF=1 for forward compatibility",
            "baseline_off_cmd": "cd /repo && /venv/bin/python -m pytest -ra -q -p no:cacheprovider --timeout=900 --continue-on-collection-errors",
            "source_commits": [],
            "add_only": True,
        },
        "engines": [
            {"name": "stmt_space", "path": "mc/checks/c01.py", "serves_properties": ["C01", "C04", "C05", "C12"],
             "kind_free_text": "product enumeration of single statements through Program.process"},
            {"name": "prog_bfs", "path": "mc/checks/c02.py", "serves_properties": ["C02", "C03", "C13", "C18", "C19"],
             "kind_free_text": "breadth-first enumeration of statement sequences / program families through Program.process"},
        ],
        "checks": checks,
        "not_applicable": na,
        "notes": "All checks are bounded-exhaustive explicit-state exploration of the real Python implementation through its public seams; "
                 "see DESIGN.md. Known genuine defects are in KNOWN_FINDINGS.txt.",
    }
    with open(os.path.join(common.VERIF, "MANIFEST.json"), "w") as f:
        json.dump(man, f, indent=1)
    return man


if __name__ == "__main__":
    m = build()
    import jsonschema  # only present in the tooling venv; validation is optional
    jsonschema.validate(m, json.load(open("/root/.vp/MANIFEST.schema.json")))
    print("MANIFEST.json valid, {} checks, {} not_applicable".format(len(m["checks"]), len(m["not_applicable"])))
