"""
C17 - assembler output depends only on the source text.

(1) Inductive invariant: a deep fingerprint of all module-level mutable state of cocoasm.* / assembler
/ file_util (globals, class attributes, function defaults and closures, NamedTuple field defaults) is
identical before and after assembling each corpus program, so the BFS over assembly histories closes at
one state. (2) History differential: for every (Q1,Q2,P) in corpus^3 the output of P after Q1,Q2 in a
warm interpreter equals its output as the first assembly of a fresh interpreter, for three hash seeds.
(3) The list of source lines is compared with a deep copy after every assembly.
"""
import copy
import hashlib
import itertools
import json
import os
import re
import subprocess
import sys
import types
import zlib

from .. import common
from . import c13

PROP = "C17"
CHUNK = 50

CORPUS = {
    "readme": c13.README,
    "classes": c13.CLASSES,
    "pcr": c13.PCRS,
    "nop": [" NOP"],
    "empty": [],
    "comment": ["; only a comment", ""],
    "equ.fwd": [" LDX #LATER", " LDA <LOW", "LATER EQU $1234", "LOW EQU $12"],
    "expr": ["B1 NOP", " LDX #B1+2", " JMP B1-1", " LDA #2*3"],
    "pcr.force16": [" LEAX L,PCR", " RMB 122", "L NOP"],
    "pcr.back": ["L RMB 126", " LEAX L,PCR"],
    "branches": ["A1 BRA A3", "A2 LBNE A1", "A3 BSR A2", " LBSR A1"],
    "data": [" FCB 1,2,-1", " FDB $1234,-2", " FCC /a b;c/", " RMB 3", " FCB 'A"],
    "special": [" PSHS A,B,X,PC", " PULU D,S", " TFR X,Y", " EXG A,B"],
    "indexed": [" LDA ,X+", " LDB [,--Y]", " LDD 5,U", " STD -129,S", " LDX [$1000]", "T LDA T,X"],
    "org.name": [" NAM prog", " ORG $0E00", "S NOP", " END S"],
    "two.orgs": [" ORG $100", " NOP", " ORG $200", " NOP"],
    "inc.q": [" NOP", " INCLUDE shared.asm", "VALUE FCB 1"],
    "inc.p": ["A NOP", "B NOP", "C BRA C", " INCLUDE shared.asm", "VALUE FCB 2", " LDA 5,X"],
    "inc.r": ["TABLE EQU 5", " INCLUDE other.asm", " INCLUDE shared.asm", "VALUE EQU $1234"],
    "rej.inc.inner": [" NOP", " INCLUDE outer2.asm"],
    "rej.inc.selfnested": [" INCLUDE loop1.asm"],
    "inc.after": ["K NOP", " INCLUDE outer3.asm", " BRA K"],
    "rej.mnemonic": [" FOO 1"],
    "rej.parse": ["failure_to_parse"],
    "rej.operand": [" LDA #"],
    "rej.undefined": [" JMP NOWHERE"],
    "rej.duplicate": ["D NOP", "D NOP"],
    "rej.mode": [" STA #1"],
    "rej.range": [" LDA #256"],
    "rej.branch": [" BRA FAR", " RMB 200", "FAR NOP"],
    "rej.register": [" LDA 5,Z"],
    "rej.fcb": [" FCB 1,300"],
    "rej.include": [" INCLUDE does-not-exist.asm"],
    "rej.string": [' FCC "abc'],
    "rej.div0": ["L NOP", " LDX #L/0"],
    "rej.toolong": [" ORG $FFF0", " RMB 300", " NOP"],
    "rej.equexpr": ["Q EQU 2+3", " LDA #Q"],
    "rej.stack": [" PSHS S"],
    "rej.end": [" END NOWHERE"],
    "rej.fit": [" LDA <$1234"],
    # symbols defined as other symbols, the origin named by a symbol, register lists naming the other stack pointer
    "alias.fwd": ["SCREEN EQU VIDRAM", "VIDRAM EQU $0400", " LDX #SCREEN", " STA SCREEN"],
    "alias.label": ["PTR EQU TARGET", " LDX #PTR", " LEAY PTR,PCR", "TARGET NOP"],
    "rej.alias.cycle": ["VIDRAM EQU SCREEN", "SCREEN EQU VIDRAM", " NOP"],
    "rej.alias.undef": ["FOO EQU NOPE", " NOP"],
    "org.sym": ["BASE EQU $0E00", " ORG BASE", "S NOP", " JMP S"],
    "rej.org.label": [" ORG S", "S NOP"],
    "stack.other": [" PSHS U,Y,X", " PULU S,X"],
    "rej.stack.other": [" PULU U,Y,X"],
    "setdp.ff": [" SETDP $FF", " JMP $FFEE", " LDA $FF22"],
    "page.ff": [" LDA $FF22", " STA $FF20", " JMP $FFEE", " LDX $0E10"],
    "setdp.0e": [" SETDP $0E00", " LDA $0E10", " SETDP 0", " LDA $0010"],
    "rej.registers2": [" PSHS E,F"],
    "rej.registers3": [" PULU W,V,Q", " NOP"],
    "rej.two.undefined": [" LDX #NOWHERE+ELSEWHERE", " JMP THIRD"],
    # addresses below $0100 (their natural width is two hex digits, the listing prints four)
    "low.org": [" NAM LOW", " ORG $0080", "START LDA #1", "LOOP DECA", " BNE LOOP", " STA VAR", " JMP DONE", "VAR FCB 0", "DONE RTS", " END START"],
    # a source that ends in a DOS end-of-file mark on a line of its own (not a statement: refused - and the list stays as it was)
    "rej.ctrlz": [" NOP", "\x1a"],
    "no.org.labels": ["START LDX #TAB", " LDA ,X", " JMP DONE", "TAB FCB 1,2", "DONE RTS"],
}
INCLUDED = {"shared.asm": ["GETVAL LDA VALUE", " LDB VALUE+1", " LEAX VALUE,PCR", " RTS"], "other.asm": [" LDA TABLE,X", " LDA 5,X", "OTHER RTS"],
            "outer2.asm": [" NOP", " INCLUDE bad.asm"], "bad.asm": ["GOOD NOP", " FOO 1"], "loop1.asm": [" INCLUDE loop2.asm"],
            "loop2.asm": [" INCLUDE loop1.asm"], "outer3.asm": [" INCLUDE shared2.asm", " NOP"], "shared2.asm": [" LDA #1"]}
NAMES = sorted(CORPUS)
HASHSEEDS = ["0", "1", "4", "7", "4242"]


def observe(lines):
    """everything a user can observe from one assembly, as a JSON-able value"""
    if any("INCLUDE" in ln for ln in lines):
        # one stable directory per process: the same absolute include paths recur across assemblies of a history
        d = os.path.join(common._scratch_parent(), "c17inc")
        if not os.path.isdir(d):
            os.mkdir(d)
            for fn, content in INCLUDED.items():
                with open(os.path.join(d, fn), "w") as f:
                    f.write("".join(x + "\n" for x in content))
        cwd = os.getcwd()
        os.chdir(d)
        try:
            out = common.assemble([ln + "\n" for ln in lines], budget=20, raw=True)
        finally:
            os.chdir(cwd)
    else:
        out = common.assemble([ln + "\n" for ln in lines], budget=20, raw=True)
    if out["kind"] == "OK":
        return ["OK", out["image"].hex(), out["listing"], [list(kv) for kv in sorted(out["symbols"].items())], out["origin"], out["name"]]
    if out["kind"] == "DIAG":
        return ["DIAG", out["exc"], out["msg"], out["stmt"]]
    return [out["kind"], out.get("exc"), out.get("where")]


# ---- deep fingerprint of module state ------------------------------------------------------------

def fingerprint():
    mods = sorted(n for n in sys.modules if n == "cocoasm" or n.startswith("cocoasm.") or n in ("assembler", "file_util"))
    keep = []          # strong references so that ids are not reused while walking
    seen = {}
    parts = []

    def walk(v, depth=0):
        if depth > 12:
            return "<deep>"
        if v is None or isinstance(v, (bool, int, float, str, bytes)):
            return repr(v)
        if isinstance(v, re.Pattern):
            return "re({!r},{})".format(v.pattern, v.flags)
        if isinstance(v, types.ModuleType):
            return "<module {}>".format(v.__name__)
        if isinstance(v, (types.BuiltinFunctionType, types.MethodDescriptorType, types.WrapperDescriptorType, types.GetSetDescriptorType,
                          types.MemberDescriptorType)):
            return "<builtin {}>".format(getattr(v, "__name__", "?"))
        i = id(v)
        if i in seen:
            return "<ref {}>".format(seen[i])
        seen[i] = len(seen)
        keep.append(v)
        if isinstance(v, (list, tuple)):
            return "{}[{}]".format(type(v).__name__, ",".join(walk(x, depth + 1) for x in v))
        if isinstance(v, (set, frozenset)):
            return "set{{{}}}".format(",".join(sorted(walk(x, depth + 1) for x in v)))
        if isinstance(v, dict):
            items = []
            for k in list(v.keys()):
                items.append("{}:{}".format(walk(k, depth + 1), walk(v[k], depth + 1)))
            return "dict{{{}}}".format(",".join(items if not isinstance(v, types.MappingProxyType) else sorted(items)))
        if isinstance(v, (types.FunctionType,)):
            cl = []
            if v.__closure__:
                for c in v.__closure__:
                    try:
                        cl.append(walk(c.cell_contents, depth + 1))
                    except ValueError:
                        cl.append("<empty cell>")
            info = "fn {}.{} defaults={} kw={} closure=[{}] code={}".format(
                v.__module__, v.__qualname__, walk(v.__defaults__, depth + 1), walk(v.__kwdefaults__, depth + 1), ",".join(cl),
                hashlib.md5(v.__code__.co_code).hexdigest()[:8])
            if hasattr(v, "cache_info"):
                info += " cache=" + repr(v.cache_info())
            return info
        if hasattr(v, "cache_info") and callable(getattr(v, "cache_info")):
            return "<cached {} {}>".format(getattr(v, "__name__", "?"), v.cache_info())
        if isinstance(v, (classmethod, staticmethod)):
            return "{}({})".format(type(v).__name__, walk(v.__func__, depth + 1))
        if isinstance(v, property):
            return "property({},{})".format(walk(v.fget, depth + 1), walk(v.fset, depth + 1))
        if isinstance(v, type):
            if not (v.__module__ or "").startswith(("cocoasm", "assembler", "file_util")):
                return "<class {}.{}>".format(v.__module__, v.__qualname__)
            items = []
            for k in sorted(v.__dict__):
                if k in ("__dict__", "__weakref__", "__doc__", "__module__", "__abstractmethods__", "_abc_impl", "__annotations__", "__firstlineno__",
                         "__static_attributes__", "__slotnames__"):
                    continue
                items.append("{}={}".format(k, walk(v.__dict__[k], depth + 1)))
            return "class {}{{{}}}".format(v.__qualname__, ";".join(items))
        d = getattr(v, "__dict__", None)
        if isinstance(d, dict):
            return "obj {}{{{}}}".format(type(v).__qualname__, ";".join("{}={}".format(k, walk(d[k], depth + 1)) for k in sorted(d)))
        if hasattr(v, "_asdict"):
            return "nt {}{}".format(type(v).__qualname__, walk(tuple(v), depth + 1))
        return "<{}>".format(type(v).__qualname__)

    for mn in mods:
        m = sys.modules[mn]
        for k in sorted(vars(m)):
            if k.startswith("__") and k.endswith("__"):
                continue
            parts.append("{}.{} = {}".format(mn, k, walk(vars(m)[k])))
    return "\n".join(parts)


# ---- fresh-interpreter baselines -----------------------------------------------------------------

_FRESH = {}
FRESH_CODE = r"""
import json, sys
sys.path.insert(0, {verif!r})
from mc.checks import c17
print(json.dumps(c17.observe(c17.CORPUS[{name!r}])))
"""


def fresh_output(name, hashseed):
    key = (name, hashseed)
    if key not in _FRESH:
        env = dict(os.environ, PYTHONHASHSEED=hashseed, PYTHONDONTWRITEBYTECODE="1", VERIF_REPO=common.REPO)
        r = subprocess.run([sys.executable, "-c", FRESH_CODE.format(verif=common.VERIF, name=name)], capture_output=True, text=True, env=env,
                           cwd=common.VERIF, timeout=120)
        if r.returncode != 0:
            _FRESH[key] = ["FRESH-FAILED", r.stderr[-300:]]
        else:
            _FRESH[key] = json.loads(r.stdout.strip().splitlines()[-1])
    return _FRESH[key]


def cases(tier, seed):
    for name in NAMES:
        yield {"k": "fresh", "p": name}
    for name in NAMES:
        yield {"k": "invariant", "p": name}
    names = NAMES
    for q1 in names:
        for q2 in names:
            # one case = all P after the history (Q1,Q2): |corpus| assemblies of P, each preceded by Q1,Q2
            yield {"k": "history", "q1": q1, "q2": q2}
    # the order in which the outputs of ONE assembly are asked for: every view is what it is when asked for first / alone
    for name in NAMES:
        if not name.startswith("rej.") and not name.startswith("inc."):
            yield {"k": "views", "p": name}
    for name in CLI_PROGRAMS:
        yield {"k": "cliviews", "p": name}
    if tier == "thorough":
        for q1, q2, q3 in itertools.product(["readme", "pcr.force16", "rej.parse", "rej.div0", "indexed", "rej.include"], repeat=3):
            yield {"k": "history", "q1": q1, "q2": q2, "q3": q3}


CLI_PROGRAMS = ["low.org", "no.org.labels", "readme", "org.name", "two.orgs", "org.sym"]
VIEWS = ("image", "listing", "symbols", "tape", "origin")


def take_view(program, view):
    if view == "image":
        return bytes(program.get_binary_array()).hex()
    if view == "listing":
        return [str(x) for x in program.get_statements()]
    if view == "symbols":
        return [str(x) for x in program.get_symbol_table()]
    if view == "origin":
        return [program.origin.is_none(), None if program.origin.is_none() else program.origin.int, program.name]
    from cocoasm.virtualfiles.cassette import CassetteFile
    from cocoasm.virtualfiles.coco_file import CoCoFile
    from cocoasm.values import NumericValue
    cas = CassetteFile()
    cas.add_file(CoCoFile(name=program.name or "PROG", load_addr=program.origin, exec_addr=program.origin, data=program.get_binary_array(),
                          extension="bin", type=NumericValue(0x02), data_type=NumericValue(0x00)))
    return bytes(cas.get_buffer()).hex()


def cli_sections(out):
    """stdout of assembler.py -> (symbol table lines, listing lines)"""
    sym, lst, cur = [], [], None
    for ln in out.split("\n"):
        if ln.startswith("-- Symbol Table --"):
            cur = sym
        elif ln.startswith("-- Assembled Statements --"):
            cur = lst
        elif cur is not None:
            cur.append(ln)
    for sec in (sym, lst):
        while sec and sec[-1] == "":      # the final line end of the output
            sec.pop()
    return sym, lst


def check_case(case):
    import cocoasm.program      # make sure the modules under observation are loaded
    import assembler            # noqa
    import file_util            # noqa
    res = {"nontrivial": True, "outcome": "ok"}
    viol = []

    def bad(cell, symptom, expected, observed):
        viol.append({"component": "determinism", "cell": cell, "symptom": symptom, "expected": str(expected)[:200], "observed": str(observed)[:200],
                     "input": case})

    if case["k"] == "fresh":
        outs = [fresh_output(case["p"], hs) for hs in HASHSEEDS]
        res["transitions"] = len(HASHSEEDS)
        if any(o[0] == "FRESH-FAILED" for o in outs):
            bad("fresh|" + case["p"], "fresh interpreter failed", "an outcome", outs)
        elif any(o != outs[0] for o in outs):
            bad("fresh|" + case["p"], "output differs between hash seeds", outs[0], next(o for o in outs if o != outs[0]))
        warm = observe(CORPUS[case["p"]])
        if warm != outs[0] and not viol:
            bad("fresh|" + case["p"], "warm output differs from fresh interpreter", outs[0], warm)
        res["state"] = "fresh:{}:{}".format(case["p"], zlib.crc32(json.dumps(outs[0]).encode()))
    elif case["k"] == "invariant":
        lines = [ln for ln in CORPUS[case["p"]]]
        snapshot = copy.deepcopy(lines)
        g0 = fingerprint()
        observe(lines)
        g1 = fingerprint()
        if g0 != g1:
            a, b = g0.split("\n"), g1.split("\n")
            diff = next(((x, y) for x, y in zip(a, b) if x != y), (len(a), len(b)))
            bad("invariant|" + case["p"], "module-level state changed by an assembly", str(diff[0])[:150], str(diff[1])[:150])
        if lines != snapshot:
            bad("invariant|" + case["p"], "source lines modified by the assembly", snapshot[:3], lines[:3])
        # the list handed to Program.process itself (as readlines() gives it: with line ends, and with the last one missing)
        if not any("INCLUDE" in ln for ln in lines):
            from cocoasm.program import Program
            for variant in ("with-line-ends", "last-line-without"):
                given = [ln + "\n" for ln in lines]
                if variant == "last-line-without" and given:
                    given[-1] = given[-1][:-1]
                before = list(given)
                try:
                    with common.watchdog(20):
                        Program().process(given)
                except Exception:
                    pass
                if given != before:
                    bad("invariant|" + case["p"], "the list given to process() was modified ({})".format(variant), before[-2:], given[-2:])
        res["state"] = "G:{}".format(hashlib.md5(g1.encode()).hexdigest()[:12])
    elif case["k"] == "views":
        from cocoasm.program import Program
        given = [ln + "\n" for ln in CORPUS[case["p"]]]
        alone = {}
        n = 0
        for order in [(v,) for v in VIEWS] + list(itertools.permutations(VIEWS)):
            program = Program()
            with common.watchdog(30):
                program.process(list(given))
            for i, v in enumerate(order):
                got = take_view(program, v)
                n += 1
                if len(order) == 1:
                    alone[v] = got
                elif got != alone[v]:
                    d = next(((a, b) for a, b in zip(alone[v], got) if a != b), (len(alone[v]), len(got))) if isinstance(got, list) else (alone[v][-60:], got[-60:])
                    bad("views|{}|{}".format(case["p"], v), "the {} depends on which outputs were produced before it".format(v),
                        "{} (asked for alone)".format(d[0]), "{} (after {})".format(d[1], "+".join(order[:i])))
                    break
            if viol:
                break
        res["transitions"] = n
        res["state"] = "V:{}:{}".format(case["p"], zlib.crc32(json.dumps(alone, sort_keys=True).encode()))
    elif case["k"] == "cliviews":
        import shutil
        from .. import cli
        td = common.mkdtemp(prefix="c17_")
        cwd = os.getcwd()
        n = 0
        try:
            os.chdir(td)
            open("p.asm", "w").write("".join(ln + "\n" for ln in CORPUS[case["p"]]))
            flags = ("symbols", "print", "bin", "cas", "dsk")
            alone = {}
            for r in (1, 2, 3, 4, 5):
                for sub in itertools.combinations(flags, r):
                    for o in ("bin", "cas", "dsk"):
                        if os.path.exists("o." + o):
                            os.remove("o." + o)
                    status, out = cli.assembler("p.asm", name="PROG", symbols="symbols" in sub, print_="print" in sub,
                                                **{"to_" + o: "o." + o for o in sub if o in ("bin", "cas", "dsk")})
                    n += 1
                    sym, lst = cli_sections(out)
                    got = {"status": status}
                    if "symbols" in sub:
                        got["symbols"] = sym
                    if "print" in sub:
                        got["print"] = lst
                    for o in ("bin", "cas", "dsk"):
                        if o in sub:
                            got[o] = zlib.crc32(open("o." + o, "rb").read()) if os.path.exists("o." + o) else None
                    if r == 1:
                        alone[sub[0]] = got[sub[0]]
                        alone["status"] = alone.get("status", status)
                    for k, v in got.items():
                        if not viol and v != alone[k]:
                            d = next(((a, b) for a, b in zip(alone[k], v) if a != b), (len(alone[k]), len(v))) if isinstance(v, list) else (alone[k], v)
                            bad("cliviews|{}|{}".format(case["p"], k), "assembler.py: the --{} output depends on the other outputs asked for".format(k if k in ("symbols", "print") else "to_" + k),
                                "{} (asked for alone)".format(str(d[0])[:120]), "{} (with {})".format(str(d[1])[:120], "+".join(sub)))
                    if viol:
                        break
                if viol:
                    break
        finally:
            os.chdir(cwd)
            shutil.rmtree(td, ignore_errors=True)
        res["transitions"] = n
        res["state"] = "CV:{}:{}".format(case["p"], zlib.crc32(json.dumps(alone, sort_keys=True, default=str).encode()))
    else:
        hist = [case["q1"], case["q2"]] + ([case["q3"]] if "q3" in case else [])
        n = 0
        for p in NAMES:
            for q in hist:
                observe(CORPUS[q])
            lines = list(CORPUS[p])
            snapshot = list(lines)
            got = observe(lines)
            n += len(hist) + 1
            want = fresh_output(p, "0")
            if got != want:
                bad("history|{}|{}".format(">".join(hist), p), "output depends on earlier assemblies", want, got)
                break
            if lines != snapshot:
                bad("history|{}|{}".format(">".join(hist), p), "source lines modified by the assembly", snapshot[:3], lines[:3])
                break
        res["transitions"] = n
        res["state"] = "H:" + ">".join(hist)
    if viol:
        res["viol"] = viol[:2]
        res["outcome"] = "violation"
    if case["k"] != "history" or zlib.crc32(repr(case).encode()) % 97 == 0:
        res["sample"] = case
    return res


def describe(tier):
    return {
        "alphabet": "corpus of {} programs: accepted ones per operand class / pseudo-op / PCR fix-point / expressions / forward EQU, and one rejected "
                    "at each stage (parse, symbol resolution, translate, size fix-point, address fix-up, operand fit, include)".format(len(NAMES)),
        "bound": "all histories (Q1,Q2) in corpus^2 followed by every P (= corpus^3 triples)" +
                 ("; plus all (Q1,Q2,Q3) over a 6-program core" if tier == "thorough" else "") + "; fresh interpreters under PYTHONHASHSEED 0/1/4242",
        "oracle": "(1) fingerprint of module-level state (globals, class attributes, function defaults/closures/caches of cocoasm.*, assembler, "
                  "file_util) equal before and after each assembly; (2) output of P after any history = output of P as first assembly of a fresh "
                  "process, equal across hash seeds; (3) input line list unchanged",
        "rule": "views: for every accepted corpus program all 120 orders of asking one Program for its image, listing, symbol table, tape file and origin, and for 6 programs all 31 non-empty subsets of assembler.py's --symbols/--print/--to_bin/--to_cas/--to_dsk: each output equals the one produced alone; state = fingerprint hash / history; the invariant cases close the BFS at a single state when the property holds",
        "assumptions": ["workers are warm processes that have already assembled other cases (additional, uncontrolled history)"],
    }
