"""
C06 - cassette images round-trip every file exactly.

Write side: product sweeps of single-file parameters and all file lists up to length 2-3 over a colliding
file alphabet go through CassetteFile.add_files -> get_buffer -> CassetteFile(buffer).list_files.
Read side: well-formed streams from the independent writer (mc/ref/tape.py) with every leader length /
gap combination are listed by the real reader.
"""
import itertools
import zlib

from .. import common
from .. import containers as C
from ..ref import tape

PROP = "C06"
CHUNK = 20

LEN_BOUNDARY = [0, 1, 2, 254, 255, 256, 257, 509, 510, 511, 764, 765, 766, 1020, 65535]
PATS = ["ramp", "55", "3c", "ff", "00", "m00.p0", "m00.p1", "m00.p2", "m01.p0", "m01.p1", "m01.p2", "mFF.p0", "mFF.p1", "mFF.p2"]
TEXT_PATS = ["dos", "unix", "mac", "mixeol"]
ADDRS = [0, 1, 0xFF, 0x100, 0x0E00, 0x1234, 0x3C55, 0x553C, 0x7FFF, 0x8000, 0xFF00, 0xFFFF,
         0x000A, 0x0A00, 0x300A, 0x0D0A]        # bytes that are line ends in text
NAMES = ["", "A", "AB", "PROG", "z9", "Hello", "ABCDEFG", "ABCDEFGH", "ABCDEFGHI", "abcdefghijkl", "A-B", "9", "MixedCas",
         "GAME.V2", "A.B", "V.1.2", "END.", ".CFG", "A,B", "X;Y", "#1", "$FF", "'Q'", "[Z]", "A+B", "0", "007", "TMP~1", "~", "a{|}`z", "_", "@HOME", "100%", "A=B", "(X)", "<>", "?*", "&&", "!"]        # any printable character may be part of a name

ALPHA = [
    C.spec("A", n=1), C.spec("B", n=255, pat="m00.p0"), C.spec("C", n=256, pat="55"), C.spec("EMPTY", n=0),
    C.spec("BAS", ftype=0, dtype=0, load=0, exec_=0, n=10), C.spec("ASC", ftype=0, dtype=0xFF, load=0, exec_=0, n=300, pat="3c"),
    C.spec("DAT", ftype=1, dtype=0xFF, load=0, exec_=0, n=511, pat="m01.p1"), C.spec("TXT", ftype=3, dtype=0xFF, n=2, pat="mFF.p0"),
    C.spec("lower", n=510, pat="mFF.p2"), C.spec("LONGNAMEXYZ", n=254, pat="ramp"), C.spec("D", n=765, pat="m00.p2"),
    C.spec("E", n=1020, pat="00"), C.spec("F", load=0xFFFF, exec_=0x553C, n=3, pat="m00.p0"), C.spec("BIG", n=4000, pat="m00.p1"),
]
CORE = [0, 1, 3, 4, 6, 8]


def lenclass(n):
    return "L{}".format(n) if n in LEN_BOUNDARY or n < 4 else ("Lmul255" if n % 255 == 0 else "Lother")


def cases(tier, seed):
    thorough = tier == "thorough"
    lens = range(0, 65536) if thorough else LEN_BOUNDARY + list(range(3, 40)) + [1275, 4000, 10000]
    for n in lens:
        pats = PATS if (not thorough or n in LEN_BOUNDARY or n < 1100) else ["ramp", "m00.p0"]
        for p in pats:
            yield {"k": "write", "files": [C.spec("T", n=n, pat=p)]}
    for nm in NAMES:
        for ft, dt in ((0, 0), (0, 0xFF), (1, 0), (1, 0xFF), (2, 0), (2, 0xFF), (3, 0), (3, 0xFF)):
            yield {"k": "write", "files": [C.spec(nm, ftype=ft, dtype=dt, n=5)]}
    # text content under every line-end convention: data bytes are data, whatever the file and data type say
    for p in TEXT_PATS:
        for ft, dt in ((0, 0), (0, 0xFF), (1, 0), (1, 0xFF), (2, 0), (2, 0xFF), (3, 0), (3, 0xFF)):
            for n in (2, 31, 256, 300):
                yield {"k": "write", "files": [C.spec("TEXT", ftype=ft, dtype=dt, n=n, pat=p)]}
    # files that carry a gap flag (as files listed from a tape with gaps do)
    for g in (0x00, 0xFF, 0x01):
        for n in (1, 255, 300):
            for ft, dt in ((2, 0), (0, 0xFF), (1, 0xFF)):
                yield {"k": "write", "files": [dict(C.spec("GAP", ftype=ft, dtype=dt, n=n, pat="ramp"), gaps=g)]}
        yield {"k": "write", "files": [dict(ALPHA[0], gaps=g), ALPHA[1], dict(ALPHA[6], gaps=g)]}
    addrs = range(0, 65536) if thorough else ADDRS
    for a in addrs:
        yield {"k": "write", "files": [C.spec("ADR", load=a, exec_=0x0E00, n=1)]}
        yield {"k": "write", "files": [C.spec("ADR", load=0x0E00, exec_=a, n=1)]}
    if not thorough:
        for a, b in itertools.product(ADDRS, repeat=2):
            yield {"k": "write", "files": [C.spec("ADR", load=a, exec_=b, n=1)]}
    alpha = ALPHA
    for n in (0, 1, 2):
        for tup in itertools.product(range(len(alpha)), repeat=n):
            yield {"k": "write", "files": [alpha[i] for i in tup]}
    core = range(len(alpha)) if thorough else CORE
    for tup in itertools.product(core, repeat=3):
        yield {"k": "write", "files": [alpha[i] for i in tup]}
    # histories on ONE container object: add and list interleaved (a listing must not disturb later additions)
    for tup in itertools.product(range(6), repeat=3):
        files = [[ALPHA[0], ALPHA[1], ALPHA[2], ALPHA[4], ALPHA[6], ALPHA[8]][i] for i in tup]
        for pattern in ("ALALAL", "AALAL", "LAALL", "ALLAAL"):
            yield {"k": "hist", "files": files, "ops": pattern}
    # read side: streams from the independent writer
    leaders = [0, 1, 15, 127, 128, 254, 255, 999]
    lists = [[ALPHA[0]], [ALPHA[1], ALPHA[4]], [ALPHA[6], ALPHA[0], ALPHA[2]], [ALPHA[13]], [ALPHA[12], ALPHA[8]], []]
    for nl in leaders:
        for dl in leaders:
            for gap in (None, 0, 1, 128):
                for li, lst in enumerate(lists):
                    yield {"k": "read", "files": lst, "nl": nl, "dl": dl, "gap": gap, "blank": 128 if (nl + dl) % 2 == 0 else 0}
    for gap in (1, 2, 16, 128):
        for blank in (0, 128):
            for flag in (0x00, 0xFF):
                for lst in (lists[1], lists[2]):
                    yield {"k": "read", "files": lst, "nl": 128, "dl": 128, "gap": gap, "blank": blank, "gapflag": flag}
    yield {"k": "read", "files": lists[2], "nl": 128, "dl": 128, "gap": None, "blank": 128, "gapflag": 0xFF}
    for chunk in (1, 2, 100, 254):
        yield {"k": "read", "files": [ALPHA[2], ALPHA[6]], "nl": 128, "dl": 128, "gap": None, "blank": 128, "chunk": chunk}
    # two new targets written one after the other in one process (what --to_bin/--to_dsk together with --to_cas does): the tape
    # holds exactly the files added to it
    for first in ("bin", "cas", "dsk"):
        for f1 in ([ALPHA[0]], [ALPHA[1], ALPHA[4]]):
            for f2 in ([ALPHA[0]], [ALPHA[6], ALPHA[2]], []):
                yield {"k": "vfpair", "first": first, "files1": f1, "files": f2}
    # what the user sees: file_util.py <tape> --list on tapes from the tool's writer ("w") and from the independent writer ("r")
    for n in (0, 1, 2):
        for tup in itertools.product(range(len(ALPHA)), repeat=n):
            for src in ("w", "r"):
                yield {"k": "clist", "files": [ALPHA[i] for i in tup], "src": src}
    for ft, dt in ((0, 0), (0, 0xFF), (1, 0), (1, 0xFF), (2, 0), (2, 0xFF), (3, 0), (3, 0xFF)):
        for a, b in ((0, 0xFFFF), (0x0E00, 0x0E05), (0xFF, 0x100)):
            yield {"k": "clist", "files": [C.spec("LISTED", ftype=ft, dtype=dt, load=a, exec_=b, n=7)], "src": "w"}


def build_image(case):
    """write side: real writer -> bytes"""
    from cocoasm.virtualfiles.cassette import CassetteFile
    cf = CassetteFile()
    cf.add_files([C.to_coco(s) for s in case["files"]])
    return bytes(cf.get_buffer())


def list_image(img):
    from cocoasm.virtualfiles.cassette import CassetteFile
    return [C.listed_to_dict(f) for f in CassetteFile(buffer=list(img)).list_files()]


def cell_of(case):
    fs = case["files"]
    if case["k"] == "hist":
        return "hist|{}|{}".format(case["ops"], ",".join(lenclass(s["n"]) for s in fs))
    if case["k"] == "vfpair":
        return "vfpair|{}x{}>cas|{}".format(case["first"], len(case["files1"]), ",".join(lenclass(s["n"]) for s in fs) or "none")
    if case["k"] == "clist":
        return "clist.{}|{}|{}".format(case["src"], ",".join(lenclass(s["n"]) for s in fs) or "none",
                                       ",".join("t{}d{:02X}".format(s["type"], s["dtype"]) for s in fs))
    if case["k"] == "write":
        return "write|{}|{}|{}".format(",".join(lenclass(s["n"]) for s in fs) or "none",
                                       ",".join(s["pat"] for s in fs)[:40],
                                       ",".join("t{}d{:02X}{}".format(s["type"], s["dtype"], "g{:02X}".format(s["gaps"]) if "gaps" in s else "") for s in fs))
    return "read|nl={}|dl={}|gap={}{}|{}".format(case["nl"], case["dl"], case["gap"], "" if case.get("gapflag") is None else ".flag{:02X}".format(case["gapflag"]),
                                                ",".join(lenclass(s["n"]) for s in fs) or "none")


def compare_lists(case, listed, kind="cas"):
    fs = case["files"]
    for i, s in enumerate(fs):
        if i >= len(listed):
            why = "listing has fewer files"
            if any(x["n"] == 0 for x in fs[:i + 1]):
                why += " (stops at a file with no data)"
            return why, "{} files".format(len(fs)), "{} files".format(len(listed))
        d = C.compare_listed(s, listed[i], kind)
        if d:
            return "file differs: " + d[0], "file {} {}: {}".format(i, C.brief(s), d[1]), str(d[2])[:80]
    if len(listed) > len(fs):
        return "listing has extra files", "{} files".format(len(fs)), "{} files".format(len(listed))
    return None


def check_case(case):
    cell = cell_of(case)
    res = {"nontrivial": True, "outcome": "ok"}
    viol = []

    def bad(symptom, expected, observed):
        viol.append({"component": "roundtrip", "cell": cell, "symptom": symptom, "expected": expected, "observed": observed, "input": case})

    if case["k"] == "hist":
        from cocoasm.virtualfiles.cassette import CassetteFile
        cf = CassetteFile()
        added = []
        todo = list(case["files"])
        try:
            for step, op in enumerate(case["ops"]):
                if op == "A" and todo:
                    f = todo.pop(0)
                    cf.add_file(C.to_coco(f))
                    added.append(f)
                elif op == "L":
                    listed = [C.listed_to_dict(x) for x in cf.list_files()]
                    d = compare_lists({"files": added}, listed)
                    if d:
                        bad("after {}: {}".format(case["ops"][:step + 1], d[0]), d[1], d[2])
                        break
        except Exception as e:
            t, w = common._raiser(e)
            bad("history raised {}@{}".format(t, w), "listing", repr(e)[:100])
        res["state"] = "hist:{}:{}".format(case["ops"], zlib.crc32(bytes(cf.get_buffer())))
        res["transitions"] = len(case["ops"])
        if viol:
            res["viol"] = viol
        return res
    if case["k"] == "vfpair":
        import os
        from cocoasm.virtualfiles.virtual_file import VirtualFile, VirtualFileType
        from cocoasm.virtualfiles.source_file import SourceFile, SourceFileType
        img = b""
        with common.scratch_dir(chdir=False) as d:
            try:
                for path, vtype, files in ((os.path.join(d, "first." + case["first"]), {"bin": VirtualFileType.BINARY, "cas": VirtualFileType.CASSETTE,
                                                                                      "dsk": VirtualFileType.DISK}[case["first"]], case["files1"]),
                                           (os.path.join(d, "second.cas"), VirtualFileType.CASSETTE, case["files"])):
                    vf = VirtualFile(SourceFile(path, file_type=SourceFileType.BINARY), vtype)
                    vf.open_virtual_file()
                    for s in (files[:1] if vtype == VirtualFileType.BINARY else files):
                        vf.add_coco_file(C.to_coco(s))
                    vf.save_virtual_file(append_mode=False)
                img = open(os.path.join(d, "second.cas"), "rb").read()
                dd = compare_lists(case, list_image(img))
                if dd:
                    bad("second new target: " + dd[0], dd[1], dd[2])
            except Exception as e:
                t, w = common._raiser(e)
                bad("writing two new targets raised {}@{}".format(t, w), "two images", repr(e)[:100])
        res["state"] = "vfpair:{}".format(zlib.crc32(img))
        res["transitions"] = 2
        if viol:
            res["viol"] = viol
        return res
    if case["k"] == "clist":
        import os
        with common.scratch_dir(chdir=False) as d:
            path = os.path.join(d, "t.cas")
            try:
                if case["src"] == "w":
                    img = build_image(case)
                else:
                    img = tape.write([dict(name=s["name"], type=s["type"], dtype=s["dtype"], load=s["load"], exec=s["exec"],
                                           data=C.pattern(s["n"], s["pat"])) for s in case["files"]])
                open(path, "wb").write(img)
                status, printed, out = C.cli_list(path)
                want = case["files"]
                if any(s["n"] == 0 for s in want):
                    want = want[:[s["n"] for s in want].index(0)]      # KF-C06-1 (a file without data ends the listing) is judged by the API cases
                if status != 0:
                    bad("file_util --list failed: {}".format(str(status).split()[0]), "exit 0", "{} {}".format(status, out[-100:]))
                else:
                    dd = C.compare_cli(want, printed, "cas")
                    if dd:
                        bad(*dd)
            except Exception as e:
                t, w = common._raiser(e)
                bad("listing raised {}@{}".format(t, w), "listing", repr(e)[:100])
        res["state"] = "clist:{}".format(zlib.crc32(img))
        if viol:
            res["viol"] = viol
        return res
    try:
        if case["k"] == "write":
            img = build_image(case)
        else:
            files = [dict(name=s["name"], type=s["type"], dtype=s["dtype"], load=s["load"], exec=s["exec"], data=C.pattern(s["n"], s["pat"]))
                     for s in case["files"]]
            img = tape.write(files, case["nl"], case["dl"], case["gap"], case.get("blank", 128), case.get("chunk", 255), case.get("gapflag"))
            assert [f["data"] for f in tape.parse(img)] == [f["data"] for f in files]
    except Exception as e:
        t, w = common._raiser(e)
        bad("writer raised {}@{}".format(t, w), "image", repr(e)[:100])
        res["viol"] = viol
        res["state"] = "writer-error"
        return res
    try:
        with common.watchdog(60):
            listed = list_image(img)
        d = compare_lists(case, listed)
        if d:
            bad(*d)
    except Exception as e:
        t, w = common._raiser(e)
        bad("reader raised {}@{}".format(t, w), "listing", repr(e)[:100])
    res["state"] = "{}:{}".format(case["k"], zlib.crc32(img))
    res["outcome"] = "violation" if viol else "roundtrip-ok"
    if viol:
        res["viol"] = viol
    if zlib.crc32(repr(case).encode()) % 503 == 0:
        res["sample"] = {"case": cell, "files": [C.brief(s) for s in case["files"]], "image_len": len(img)}
    return res


def describe(tier):
    return {
        "alphabet": "file = (name, type 0-3, data type 00/FF, load, exec, length, content pattern); lengths {}; patterns {}; names {}; "
                    "addresses {}; files carrying a gap flag 00/FF/01; 14-symbol file alphabet for lists; add/list interleavings (4 patterns) on ONE "
                    "container object over all 3-file lists of a 6-file alphabet; read side: leaders {} x {} , gaps none/0/1/128, chunk sizes; a second new cassette target written after a first new target in the same process; file_util --list (printed name, types, addresses, length) on every list "
                    "of <= 2 files from both writers and on every type/data type".format(
                        "0..65535" if tier == "thorough" else LEN_BOUNDARY + ["3..39", 1275, 4000, 10000], PATS, NAMES,
                        "0..65535 each" if tier == "thorough" else ADDRS, "8 lengths", "8 lengths"),
        "bound": "single files over the full parameter sweeps; all lists of length <= 2 over 14 files, length 3 over " +
                 ("all 14" if tier == "thorough" else "a 6-file core"),
        "oracle": "list_files(image written) equals the input list: count, order, name (upper-cased, 8 chars), type, data type, both "
                  "addresses, data; streams from the independent strict writer/parser are listed exactly by the real reader",
        "rule": "state = checksum of the image produced; non-trivial = every case (each produces and lists an image)",
        "assumptions": ["the name-file block stores load address then entry address, as the tool writes it"],
    }
